"""C11 — Reading and rendering never change the model; introspection never crashes."""
from __future__ import annotations

import collections
import hashlib
import io
import pathlib
import random
import sys

sys.path.insert(0, str(pathlib.Path(__file__).resolve().parent))
import lib
import corpus
import graph
from lib import Err, err_of

FORMATS = [None, "svg", "svgdiagram", "datauri_svg", "html_img", "svg_confluence"]
PVMT_ATTRS = {"pvmt", "property_value_packages", "property_value_pkgs"}   # documented exception: applies groups on first use


def fingerprint(model, exact: bool = False) -> dict[str, str]:
    """per fragment: hash of the bytes save() would write (exact=True, capellambse's own writer) combined with /
    or only (exact=False) lxml's serialization of the same tree — any change of a tag, attribute, text or order
    changes both, and lxml's is 20x faster, which allows a check after every single diagram and format"""
    from lxml import etree
    out = {}
    for p, tree in model._loader.trees.items():
        h = hashlib.sha1(etree.tostring(tree.root.getroottree()))
        if exact:
            buf = io.BytesIO()
            tree.write_xml(buf)
            h.update(buf.getvalue())
        out[str(p).replace("\0", "<primary>")] = h.hexdigest()
    return out


def changed(a: dict, b: dict) -> list[str]:
    return [k for k in a if a[k] != b.get(k)]


def run(chk: lib.Check):
    import capellambse
    from capellambse.model import _descriptors as D, _obj
    pr = chk.prove()
    quick = chk.tier == "quick"
    stats = collections.Counter()
    rng = chk.rng
    specs = corpus.model_specs(chk.tier)[: (1 if quick else 5)]
    orders = 1 if quick else 3

    def guard(model, base, label, key, replay, exact=False):
        now = fingerprint(model, exact)
        ch = changed(base, now)
        if ch:
            chk.violation(key, f"{label}: what save() would write changed in {ch}", dict(replay, changed=ch))
            return now
        return base

    for spec0 in specs:
        for order in range(orders):
            model = corpus.load(spec0)
            base = fingerprint(model)
            base_exact = fingerprint(model, True)
            loader = model._loader
            objs = []
            for p, tree in loader.trees.items():
                if p.suffix in graph.SEMANTIC:
                    for e in tree.root.iter():
                        if isinstance(e.tag, str) and e.get("id") and e.get("href") is None:
                            try:
                                objs.append(_obj.ModelElement.from_model(model, e))
                            except Exception as ex:  # noqa: BLE001
                                chk.violation(f"wrap-raises:{type(ex).__name__}", f"wrapping element {e.get('id')} raised {ex!r}", {"model": spec0["name"], "uuid": e.get("id")})
            rng.shuffle(objs)
            sample = objs      # every object, every tier
            # ---------------- group 1: every public attribute of every object (dir), incl. repetition
            by_class_done: set = set()
            for o in sample:
                cls = type(o).__name__
                try:
                    names = [n for n in dir(o) if not n.startswith("_")]
                except Exception as ex:  # noqa: BLE001
                    chk.violation(f"dir-raises:{cls}:{type(ex).__name__}", f"dir({cls} {o.uuid}) raised {ex!r}", {"model": spec0["name"], "uuid": o.uuid})
                    continue
                stats["dir"] += 1
                lists = []
                for n in names:
                    if n in PVMT_ATTRS:
                        continue
                    acc = getattr(type(o), n, None)
                    # back-references scan the whole model: every class once in the quick tier
                    if quick and isinstance(acc, D.ReferenceSearchingAccessor) and (cls, n) in by_class_done:
                        continue
                    by_class_done.add((cls, n))
                    try:
                        v = getattr(o, n)
                        stats["getattr"] += 1
                        if isinstance(v, _obj.ElementList):
                            lists.append((n, v))
                    except Exception:  # noqa: BLE001  a read may fail (broken references etc.) — it must not write
                        stats["getattr-raises"] += 1
                chk.note_case((spec0["name"], order, "attrs", o.uuid), nontrivial=True)
                # introspection of the object and of the lists it returned
                for what, fn in (("repr", lambda: repr(o)), ("html", lambda: o._repr_html_()), ("short_html", lambda: o._short_html_()),
                                 ("str", lambda: str(o))):
                    try:
                        fn()
                        stats[what] += 1
                    except Exception as ex:  # noqa: BLE001
                        chk.violation(f"{what}-raises:{cls}:{type(ex).__name__}", f"{what}({cls} {o.uuid}) raised {ex!r}", {"model": spec0["name"], "uuid": o.uuid, "what": what})
                for n, v in lists[: (4 if quick else 50)]:
                    for what, fn in (("list-repr", lambda: repr(v)), ("list-html", lambda: v._repr_html_()), ("list-dir", lambda: dir(v))):
                        try:
                            fn()
                            stats[what] += 1
                        except Exception as ex:  # noqa: BLE001
                            chk.violation(f"{what}-raises:{cls}.{n}:{type(ex).__name__}", f"{what} of {cls}({o.uuid}).{n} raised {ex!r}",
                                          {"model": spec0["name"], "uuid": o.uuid, "attr": n, "what": what})
                if stats["dir"] % 40 == 0:
                    base = guard(model, base, f"reading attributes / introspecting objects (last: {cls} {o.uuid})", f"reads-write:attributes:{cls}",
                                 {"model": spec0["name"], "group": "attributes", "last": o.uuid})
            base = guard(model, base, "reading attributes / introspecting objects", "reads-write:attributes", {"model": spec0["name"], "group": "attributes"})
            # ---------------- group 2: searches and reference searches
            for o in sample[:60]:
                try:
                    list(model.find_references(o))
                    model.search(type(o))
                    model.search(o.xtype, below=o.parent) if getattr(o, "parent", None) is not None and hasattr(o.parent, "_element") else None
                    stats["search+find_references"] += 1
                except Exception:  # noqa: BLE001
                    stats["search-raises"] += 1
            base = guard(model, base, "search / find_references", "reads-write:search", {"model": spec0["name"], "group": "search"})
            # ---------------- group 3: validation, metrics, requirement export
            try:
                model.validation.validate()
                stats["validate"] += 1
            except Exception as ex:  # noqa: BLE001
                stats[f"validate-raises:{type(ex).__name__}"] += 1
            base = guard(model, base, "model.validation.validate()", "reads-write:validation", {"model": spec0["name"], "group": "validation"})
            try:
                from capellambse.extensions.metrics import collector, composer
                m = collector.quantify_model_layers(model)
                composer.draw_summary_badge(m)
                stats["metrics"] += 1
            except Exception as ex:  # noqa: BLE001
                stats[f"metrics-raises:{type(ex).__name__}"] += 1
            base = guard(model, base, "metrics badge", "reads-write:metrics", {"model": spec0["name"], "group": "metrics"})
            try:
                mods = model.search("CapellaModule")
            except Exception:  # noqa: BLE001
                mods = []
            for mod in mods:
                try:
                    mod.to_reqif(io.BytesIO(), metadata={"creation_time": None} if False else None)
                    stats["reqif-export"] += 1
                except Exception as ex:  # noqa: BLE001
                    stats[f"reqif-raises:{type(ex).__name__}"] += 1
                base = guard(model, base, f"ReqIF export of module {mod.uuid}", "reads-write:reqif", {"model": spec0["name"], "group": "reqif", "module": mod.uuid})
            # ---------------- group 4: every diagram, every format, repr/dir/mimebundle/nodes
            diags = list(model.diagrams)
            rng.shuffle(diags)
            for d in diags:
                for fmt in (FORMATS if order == 0 else rng.sample(FORMATS, 3)):
                    try:
                        d.render(fmt)
                        stats[f"render:{fmt}"] += 1
                    except Exception as ex:  # noqa: BLE001
                        stats[f"render-raises:{fmt}:{type(ex).__name__}"] += 1
                    chk.note_case((spec0["name"], order, "render", d.uuid, fmt), nontrivial=True)
                    base = guard(model, base, f"rendering diagram {d.name!r} as {fmt}", f"render-writes:{d.uuid}",
                                 {"model": spec0["name"], "group": "render", "diagram": d.uuid, "name": d.name, "format": fmt})
                for what, fn in (("diagram-repr", lambda: repr(d)), ("diagram-dir", lambda: dir(d)), ("diagram-mimebundle", lambda: d._repr_mimebundle_()),
                                 ("diagram-nodes", lambda: list(d.nodes)), ("diagram-html", lambda: d._short_html_())):
                    try:
                        fn()
                        stats[what] += 1
                    except Exception as ex:  # noqa: BLE001
                        chk.violation(f"{what}-raises:{type(ex).__name__}", f"{what} of diagram {d.name!r} ({d.uuid}) raised {ex!r}",
                                      {"model": spec0["name"], "diagram": d.uuid, "what": what})
                base = guard(model, base, f"introspecting diagram {d.name!r}", f"render-writes:{d.uuid}", {"model": spec0["name"], "diagram": d.uuid, "group": "diagram-introspection"})
            # ---------------- group 4b: rendering with render parameters, and with every known diagram filter activated.  Activating a
            # filter IS an edit (it is stored in the layout file), so the baseline is taken again after it; rendering — with and without
            # parameters — must then leave that state alone
            from capellambse.aird import _filters as aird_filters
            try:
                known_filters = sorted(aird_filters.GLOBAL_FILTERS)
            except Exception:  # noqa: BLE001
                known_filters = []
            param_sets = [{"sorted_exchangedItems": True}, {"sorted_exchangedItems": False}, {"sorted_exchangedItems": True, "hide_context": True}]
            for d in diags[: (12 if quick else len(diags))]:
                for prm in param_sets[: 1 if quick and order else 3]:
                    try:
                        d.render("svg", **prm)
                        stats["render-with-parameters"] += 1
                    except Exception as ex:  # noqa: BLE001
                        stats[f"render-with-parameters-raises:{type(ex).__name__}"] += 1
                    base = guard(model, base, f"rendering diagram {d.name!r} with parameters {prm}", f"render-params-write:{sorted(prm)}",
                                 {"model": spec0["name"], "group": "render-params", "diagram": d.uuid, "params": prm})
            model_f = corpus.load(spec0)        # the activation is an edit: it happens in a model of its own, not in the read-only session
            for d in [model_f.diagrams.by_uuid(d_.uuid) for d_ in diags[: (8 if quick else len(diags))]]:
                try:
                    for f_ in known_filters:
                        d.filters.add(f_)
                    d.invalidate_cache()
                    stats["diagrams-with-every-filter-activated"] += 1
                except Exception as ex:  # noqa: BLE001
                    stats[f"filter-activation-raises:{type(ex).__name__}"] += 1
                    continue
                base_f = fingerprint(model_f)
                for prm in ({}, {"sorted_exchangedItems": True}):
                    try:
                        d.render("svg", **prm)
                        stats["render-with-filters-activated"] += 1
                    except Exception as ex:  # noqa: BLE001
                        stats[f"render-with-filters-raises:{type(ex).__name__}"] += 1
                    chk.note_case((spec0["name"], order, "render-filters", d.uuid, str(prm)), nontrivial=True)
                    base_f = guard(model_f, base_f, f"rendering diagram {d.name!r} with all filters activated and parameters {prm}", f"render-filters-write:{sorted(prm)}",
                                   {"model": spec0["name"], "group": "render-filters", "diagram": d.uuid, "params": prm, "filters": known_filters})
            del model_f
            for what, fn in (("diagrams-repr", lambda: repr(model.diagrams)), ("diagrams-html", lambda: model.diagrams._repr_html_()), ("model-repr", lambda: repr(model)),
                             ("model-info", lambda: model.info)):
                try:
                    fn()
                except Exception as ex:  # noqa: BLE001
                    chk.violation(f"{what}-raises:{type(ex).__name__}", f"{what} raised {ex!r}", {"model": spec0["name"], "what": what})
            base = guard(model, base, "model level introspection", "reads-write:model", {"model": spec0["name"]})
            guard(model, base_exact, "the whole session (bytes written by capellambse's own writer)", "reads-write:session", {"model": spec0["name"]}, exact=True)
            del model
    # ---------------- diagrams whose stored layout is damaged (elements the renderer has to skip): the error paths of the
    # factories must not leave anything behind either
    import shutil
    from lxml import etree
    for spec0 in specs[: (1 if quick else 3)]:
        for rnd in range(3 if quick else 12):
            with lib.scratch("c11-") as tmp:
                src = pathlib.Path(spec0["path"]).parent
                shutil.copytree(src, tmp / "m", ignore=shutil.ignore_patterns("*.license"))
                aird = tmp / "m" / pathlib.Path(spec0["path"]).name
                tree = etree.parse(str(aird), etree.XMLParser(remove_blank_text=False, huge_tree=True))
                cands = [e for e in tree.getroot().iter() if isinstance(e.tag, str) and e.tag in ("layoutConstraint", "bendpoints")]
                if not cands:
                    continue
                k = min(len(cands), 25)
                for e in rng.sample(cands, k):
                    if e.getparent() is not None:
                        e.getparent().remove(e)
                aird.write_bytes(etree.tostring(tree, xml_declaration=True, encoding="UTF-8"))
                try:
                    kw = {a: b for a, b in spec0.items() if a not in ("name", "path")}
                    model = capellambse.MelodyModel(str(aird), **kw)
                except Exception as ex:  # noqa: BLE001
                    stats[f"damaged-load-raises:{type(ex).__name__}"] += 1
                    continue
                base = fingerprint(model)
                for d in model.diagrams:
                    for fmt in (None, "svg"):
                        try:
                            d.render(fmt)
                            stats["damaged-render-ok"] += 1
                        except Exception as ex:  # noqa: BLE001
                            stats[f"damaged-render-raises:{type(ex).__name__}"] += 1
                    chk.note_case((spec0["name"], "damaged", rnd, d.uuid))
                    base = guard(model, base, f"rendering diagram {d.name!r} of a model whose .aird lost {k} layoutConstraint/bendpoints elements",
                                 f"render-writes:damaged-layout:{d.name}", {"model": spec0["name"], "diagram": d.uuid, "name": d.name, "round": rnd, "removed": k})
                del model
    # ---------------- models in which attributes are present but EMPTY (name="", workspacePath=""): code that sets a value for the time of an
    # operation and restores it afterwards has to restore "present and empty", not "absent"
    for spec0 in specs[:1]:
        for rnd in range(2 if quick else 6):
            with lib.scratch("c11e-") as tmp:
                src = pathlib.Path(spec0["path"]).parent
                shutil.copytree(src, tmp / "m", ignore=shutil.ignore_patterns("*.license"))
                aird = tmp / "m" / pathlib.Path(spec0["path"]).name
                touched = 0
                for f in sorted((tmp / "m").iterdir()):
                    if f.suffix not in (".capella", ".aird", ".capellafragment", ".airdfragment"):
                        continue
                    tree = etree.parse(str(f), etree.XMLParser(remove_blank_text=False, huge_tree=True))
                    for e in tree.getroot().iter():
                        if not isinstance(e.tag, str):
                            continue
                        if f.suffix.startswith(".capella") and e.get("id") and e.get("name") is None and e.getparent() is not None and rng.random() < 0.7:
                            e.set("name", "")
                            touched += 1
                        elif f.suffix.startswith(".capella") and e.get("id") and e.get("name") and e.getparent() is not None and rnd % 2 == 1 and rng.random() < 0.4:
                            # ... and named elements that lose their name (absent or empty): labels then come from fallbacks
                            if rng.random() < 0.5:
                                del e.attrib["name"]
                            else:
                                e.set("name", "")
                            touched += 1
                        elif f.suffix.startswith(".aird") and e.tag in ("ownedStyle", "styles") and e.get("workspacePath") is None and rng.random() < 0.5:
                            e.set("workspacePath", "")
                            touched += 1
                    f.write_bytes(etree.tostring(tree, xml_declaration=True, encoding="UTF-8"))
                try:
                    kw = {a: b for a, b in spec0.items() if a not in ("name", "path")}
                    model = capellambse.MelodyModel(str(aird), **kw)
                except Exception as ex:  # noqa: BLE001
                    stats[f"empty-attrs-load-raises:{type(ex).__name__}"] += 1
                    continue
                base = fingerprint(model)
                stats["empty-attributes-added"] += touched
                for d in model.diagrams:
                    for fmt in (None, "svg"):
                        try:
                            d.render(fmt)
                            stats["empty-attrs-render-ok"] += 1
                        except Exception as ex:  # noqa: BLE001
                            stats[f"empty-attrs-render-raises:{type(ex).__name__}"] += 1
                    chk.note_case((spec0["name"], "empty-attrs", rnd, d.uuid))
                    base = guard(model, base, f"rendering diagram {d.name!r} of a model in which {touched} elements carry an explicit empty name/workspacePath",
                                 f"render-writes:empty-attributes:{d.name}", {"model": spec0["name"], "diagram": d.uuid, "name": d.name, "round": rnd})
                for o_ in [x_ for x_ in model.search() if isinstance(x_, _obj.ModelElement)][: (300 if quick else 3000)]:
                    try:
                        repr(o_); o_._repr_html_(); o_._short_html_()
                    except Exception as ex:  # noqa: BLE001
                        chk.violation(f"html-raises:empty-attributes:{type(o_).__name__}:{type(ex).__name__}", f"repr/HTML of {type(o_).__name__} {o_.uuid} with empty attributes raised {ex!r}",
                                      {"model": spec0["name"], "uuid": o_.uuid})
                base = guard(model, base, "introspection in the model with empty attributes", "reads-write:empty-attributes", {"model": spec0["name"]})
                del model
    # ---------------- objects in half-built states: a bare new object of every class a containment relation can create (no ends, no type,
    # no source/target yet) still has a dir(), repr() and HTML representation
    for spec0 in specs[:1]:
        model = corpus.load(spec0)
        import histories
        done_rel: set = set()
        for o in histories._objects(model, rng, 4000):
            for name, acc in graph.list_relations(o):
                kind = graph.acc_kind(acc)
                if kind not in ("direct", "role") or (type(o).__name__, name) in done_rel or getattr(acc, "rootelem", None):
                    continue
                done_rel.add((type(o).__name__, name))
                hints = sorted(getattr(acc, "xtypes", []) or []) or [None]
                for hint in hints[: (3 if quick else 20)]:
                    try:
                        lst = getattr(o, name)
                        new = lst.create(hint) if hint else lst.create()
                    except Exception:  # noqa: BLE001  creation may legitimately need more arguments
                        stats["bare-create-refused"] += 1
                        continue
                    stats["bare-created"] += 1
                    cls = type(new).__name__
                    chk.note_case((spec0["name"], "bare", cls), nontrivial=True)
                    for what, fn in (("dir", lambda: dir(new)), ("repr", lambda: repr(new)), ("str", lambda: str(new)), ("html", lambda: new._repr_html_()),
                                     ("short_html", lambda: new._short_html_())):
                        try:
                            fn()
                        except Exception as ex:  # noqa: BLE001
                            chk.violation(f"{what}-raises:bare:{cls}:{type(ex).__name__}", f"{what}() of a freshly created {cls} (no attributes set yet, created through "
                                          f"{type(o).__name__}.{name}.create({hint!r})) raised {ex!r}", {"model": spec0["name"], "owner": o.uuid, "relation": name, "hint": hint, "what": what})
        del model
    # ---------------- models in states that edit histories reach (objects deleted, relations that lost an end, half-built objects), saved
    # and loaded again: every read of every object and every rendering still leaves the bytes alone
    import histories as _H
    for spec0 in specs[:1]:
        for rnd in range(2 if quick else 6):
            with lib.scratch("c11h-") as tmp:
                src = pathlib.Path(spec0["path"]).parent
                shutil.copytree(src, tmp / "m", ignore=shutil.ignore_patterns("*.license"))
                aird = tmp / "m" / pathlib.Path(spec0["path"]).name
                kw = {a: b for a, b in spec0.items() if a not in ("name", "path")}
                try:
                    m0 = capellambse.MelodyModel(str(aird), **kw)
                    hr = _H.HistoryRunner(m0, rng)
                    for _ in range(60):
                        hr.step()
                    # targeted: objects that relations point AT are deleted (the relation elements stay behind without that end)
                    for _ in range(12):
                        try:
                            hr.op_delete_linked() if rng.random() < 0.5 else hr.op_reqrel_target_delete()
                        except Exception:  # noqa: BLE001  refused deletions are part of the history
                            pass
                    m0.save()
                    del m0
                    model = capellambse.MelodyModel(str(aird), **kw)
                except Exception as ex:  # noqa: BLE001
                    stats[f"history-state-skipped:{type(ex).__name__}"] += 1
                    continue
                base = fingerprint(model)
                n_read = 0
                for p_, tree_ in model._loader.trees.items():
                    if p_.suffix not in graph.SEMANTIC:
                        continue
                    for e in list(tree_.root.iter()):
                        if not (isinstance(e.tag, str) and e.get("id") and e.get("href") is None):
                            continue
                        try:
                            o = _obj.ModelElement.from_model(model, e)
                        except Exception:  # noqa: BLE001
                            continue
                        for n in dir(o):
                            if n.startswith("_") or n in PVMT_ATTRS:
                                continue
                            if isinstance(getattr(type(o), n, None), D.ReferenceSearchingAccessor):
                                continue      # whole-model scans: covered above, too slow per object here
                            try:
                                getattr(o, n)
                                n_read += 1
                            except Exception:  # noqa: BLE001
                                stats["history-state-getattr-raises"] += 1
                        for fn in (lambda: repr(o), lambda: o._short_html_()):
                            try:
                                fn()
                            except Exception as ex:  # noqa: BLE001
                                stats[f"history-state-repr-raises:{type(ex).__name__}"] += 1
                stats["history-state-attribute-reads"] += n_read
                chk.note_case((spec0["name"], "history-state", rnd), nontrivial=True)
                base = guard(model, base, f"reading {n_read} attributes of every object of a model saved after an edit history (round {rnd})",
                             "reads-write:history-state:attributes", {"model": spec0["name"], "round": rnd})
                for d in list(model.diagrams)[: (12 if quick else 200)]:
                    try:
                        d.render("svg")
                        stats["history-state-render-ok"] += 1
                    except Exception as ex:  # noqa: BLE001
                        stats[f"history-state-render-raises:{type(ex).__name__}"] += 1
                base = guard(model, base, f"rendering diagrams of a model saved after an edit history (round {rnd})", "render-writes:history-state", {"model": spec0["name"], "round": rnd})
                del model
    # ---------------- configurations: the environment switches the getters consult at call time (CAPELLAMBSE_XHTML=1: descriptions are
    # returned as repaired XHTML) — every HTML-valued attribute of every object of EVERY available model, bytes compared per model
    import os as _os
    from capellambse.model import _pods as P
    old_env = _os.environ.get("CAPELLAMBSE_XHTML")
    _os.environ["CAPELLAMBSE_XHTML"] = "1"
    try:
        for spec_x in corpus.model_specs("thorough"):
            try:
                model = corpus.load(spec_x)
            except Exception:  # noqa: BLE001
                continue
            base = fingerprint(model)
            n_html = 0
            for p_, tree_ in model._loader.trees.items():
                if p_.suffix not in graph.SEMANTIC:
                    continue
                for e in tree_.root.iter():
                    if not (isinstance(e.tag, str) and e.get("id") and e.get("href") is None):
                        continue
                    try:
                        o = _obj.ModelElement.from_model(model, e)
                    except Exception:  # noqa: BLE001
                        continue
                    for an in dir(type(o)):
                        if isinstance(getattr(type(o), an, None), P.HTMLStringPOD):
                            try:
                                getattr(o, an)
                                n_html += 1
                            except Exception:  # noqa: BLE001
                                stats["xhtml-getattr-raises"] += 1
            stats["xhtml-attribute-reads"] += n_html
            chk.note_case((spec_x["name"], "xhtml"), nontrivial=True)
            guard(model, base, f"reading {n_html} HTML attributes of {spec_x['name']} with CAPELLAMBSE_XHTML=1", f"reads-write:xhtml:{spec_x['name']}",
                  {"model": spec_x["name"], "env": {"CAPELLAMBSE_XHTML": "1"}})
            del model
    finally:
        if old_env is None:
            _os.environ.pop("CAPELLAMBSE_XHTML", None)
        else:
            _os.environ["CAPELLAMBSE_XHTML"] = old_env
    # ---------------- temporary_attribute itself against its model (Model/TempAttr.v): any attribute map, absent / empty / valued, nested
    from capellambse.aird import _common as AC
    tcases = []
    S = lambda z: "" if z == 0 else f"v{z}"
    for _ in range(300 if quick else 3000):
        keys = rng.sample(range(1, 7), rng.randint(0, 5))
        a = [[k_, rng.choice([0, 0, 1, 2, 3])] for k_ in keys]
        k1, x1, k2, x2 = rng.randint(1, 7), rng.choice([0, 4, 5]), rng.randint(1, 7), rng.choice([0, 6])
        if rng.random() < 0.5:
            k2 = k1
        el = etree.Element("e")
        for k_, v_ in a:
            el.set(f"k{k_}", S(v_))
        dump = lambda: [[int(k_[1:]), 0 if v_ == "" else int(v_[1:])] for k_, v_ in el.attrib.items()]
        try:
            with AC.temporary_attribute(el, f"k{k1}", S(x1)):
                inside = dump()
                with AC.temporary_attribute(el, f"k{k2}", S(x2)):
                    nested = dump()
        except Exception as ex:  # noqa: BLE001
            chk.violation(f"temporary_attribute-raises:{type(ex).__name__}", f"temporary_attribute on attributes {a} with ({k1},{x1}) / nested ({k2},{x2}) raised {ex!r}",
                          {"attrs": a, "outer": [k1, x1], "inner": [k2, x2]})
            continue
        tcases.append(([a, k1, x1, k2, x2], [inside, nested, dump()]))
        if dump() != a:
            chk.violation("temporary_attribute-not-restored", f"temporary_attribute on attributes {a} with ({k1},{x1}) / nested ({k2},{x2}) leaves {dump()}", {"attrs": a, "outer": [k1, x1], "inner": [k2, x2]})
    chk.correspond("From V Require Import Model.TempAttr.", "w_temp_attr", tcases, tag="C11_tempattr")
    chk.coverage.update({"counts": dict(sorted(stats.items())),
                         "explanation": "exhaustive enumeration on the implementation: every public attribute from dir() of every sampled (quick) / every (thorough) semantic object, "
                                        "repr/str/HTML of objects and of the lists their relations return, searches, validation, metrics, ReqIF export of every module, every diagram "
                                        "in every format available offline (png/terminal graphics need cairosvg); the serialized bytes of every fragment are compared before and "
                                        "after every group (after every diagram and format); PVMT access is the documented exception and is not exercised",
                         "rule": "see explanation; non-trivial = every case (each is a distinct object/diagram/format)"})
    chk.samples.append({"formats": [str(f) for f in FORMATS]})
    chk.assumptions += ["the Coq theorems state purity of the modelled reads only; hidden writes in the real read paths are decided by the byte comparison here"]


if __name__ == "__main__":
    lib.main("C11", run, level="other")
