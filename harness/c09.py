"""C09 — Deleting an object is all-or-nothing and leaves no reachable reference to it."""
from __future__ import annotations

import collections
import io
import pathlib
import random
import re
import sys
import uuid as uuidmod

sys.path.insert(0, str(pathlib.Path(__file__).resolve().parent))
import lib
import corpus
import graph
import histories
from lib import Err, err_of

TOKEN = re.compile(r"#([A-Za-z0-9_-]+)")
SKIP_ATTRS = {"id", "href", graph.XSI_TYPE}


def sem_trees(loader):
    return [(p, t) for p, t in loader.trees.items() if p.suffix in graph.SEMANTIC]


def ref_tokens(value: str) -> list[str]:
    return TOKEN.findall(value) if "#" in value else []


def snapshot(loader, A) -> dict:
    out = {}
    for p, tree in sem_trees(loader):
        for e in tree.root.iter():
            if isinstance(e.tag, str):
                par = e.getparent()
                out[A.H(e)] = (None if par is None else A.H(par), e.tag, dict(e.attrib), (e.text or "").strip())
    return out


def broken_tokens(loader) -> set:
    ids, toks = set(), set()
    for p, tree in sem_trees(loader):
        for e in tree.root.iter():
            if isinstance(e.tag, str):
                for k, v in e.attrib.items():
                    if k == "id":
                        ids.add(v)
                    elif k not in SKIP_ATTRS and "#" in v:
                        toks.update(ref_tokens(v))
    return toks - ids


def find_container(obj):
    """(list, index) of the containment/role list of the parent that holds obj"""
    try:
        par = obj.parent
    except Exception:  # noqa: BLE001
        return None
    if par is None or not hasattr(par, "_element"):
        return None
    for name, acc in graph.list_relations(par):
        if graph.acc_kind(acc) not in ("direct", "role") or getattr(acc, "rootelem", None):
            continue
        try:
            lst = getattr(par, name)
        except Exception:  # noqa: BLE001
            continue
        for i, e in enumerate(lst._elements):
            if e is obj._element:
                return par, name, lst, i
    return None


def run(chk: lib.Check):
    import capellambse
    from capellambse.model import _descriptors as D, _obj
    pr = chk.prove()
    quick = chk.tier == "quick"
    stats = collections.Counter()
    cases, descs = [], []
    n_targets = 100 if quick else 800
    per_model_reload = 8
    specs = corpus.model_specs(chk.tier)[: (1 if quick else 3)]
    for spec0 in specs:
        rng = random.Random(f"{chk.seed}:{spec0['name']}")
        uuidmod.uuid4 = lambda rng=rng: uuidmod.UUID(int=rng.getrandbits(128), version=4)
        model = None
        done = 0
        # target plan computed on a pristine load
        plan_model = corpus.load(spec0)
        refcount = collections.Counter()
        all_sem = []
        sem_trees_plan = sem_trees(plan_model._loader)
        for p, tree in sem_trees_plan:
            if p.parts[0] != "\0":
                continue
            for e in tree.root.iter():
                if isinstance(e.tag, str):
                    for k, v in e.attrib.items():
                        if k not in SKIP_ATTRS:
                            for tkn in ref_tokens(v):
                                refcount[tkn] += 1
                    if e.get("id") and e.getparent() is not None:
                        all_sem.append(e)
        leaves = [e.get("id") for e in all_sem if len(e) == 0]
        roots = [e.get("id") for e in all_sem if len(e) >= 3]
        popular = [u for u, _ in refcount.most_common(80)]
        # things referenced from a physical link's ends (relation that refuses purging)
        plends = []
        for e in all_sem:
            if (e.get(graph.XSI_TYPE) or "").endswith(":PhysicalLink"):
                plends += ref_tokens(e.get("linkEnds", ""))
        # ... and the subtrees that CONTAIN such an end (the refusal then comes after other purge contexts were entered)
        byid = {e.get("id"): e for e in all_sem}
        plparents = []
        for u in plends:
            e = byid.get(u)
            for _ in range(3):
                if e is None:
                    break
                e = e.getparent()
                if e is not None and e.get("id") and e.get("id") in byid:
                    plparents.append(e.get("id"))
        plparents = list(dict.fromkeys(plparents))
        plends_set = set(plends)
        # subtrees of which ONE holder's relation (a list attribute, or link elements sharing parent, tag and attribute) references
        # several distinct members: the purge has to take all of them out of that one relation
        groups = collections.defaultdict(list)
        holder_of = {}
        for p, tree in sem_trees_plan:
            if p.parts[0] != "\0":
                continue
            for e in tree.root.iter():
                if not isinstance(e.tag, str):
                    continue
                for k, v in e.attrib.items():
                    if k in SKIP_ATTRS:
                        continue
                    toks = ref_tokens(v)
                    if len(toks) >= 2:
                        groups[(id(e), k)] += toks
                        holder_of[(id(e), k)] = e
                    elif len(toks) == 1 and e.getparent() is not None and not e.get("name"):
                        key = (id(e.getparent()), e.tag, k)
                        groups[key] += toks
                        holder_of[key] = e.getparent()
        cnt = collections.Counter()
        for key, toks in groups.items():
            if len(set(toks)) < 2:
                continue
            hold_anc = {id(x) for x in [holder_of[key], *holder_of[key].iterancestors()]}
            for tk in set(toks):
                el = byid.get(tk)
                while el is not None and el.get("id") in byid:
                    if id(el) in hold_anc:
                        break
                    cnt[(key, el.get("id"))] += 1
                    el = el.getparent()
        multi = sorted({anc for (key, anc), c in cnt.items() if c >= 2}, key=lambda u: (sum(1 for _ in byid[u].iter()), u))[:200]
        stats["pool-multi-referenced-subtrees"] = len(multi)
        plan = []
        share = max(1, n_targets // (8 * len(specs)))
        reqrels = [e.get("id") for e in all_sem if (e.get(graph.XSI_TYPE) or "").split(":")[-1] in ("CapellaIncomingRelation", "CapellaOutgoingRelation", "InternalRelation")]
        reqrel_pool = set(reqrels)
        refusal_pool = set()
        # members of a list of MIXED classes (same tag, another xsi:type before them): a filter attribute may exist on one class only
        mixed = []
        for e in all_sem:
            if e.get("id") and e.get(graph.XSI_TYPE) and not len(e) > 30:
                prev = e.getprevious()
                while prev is not None:
                    if isinstance(prev.tag, str) and prev.tag == e.tag and prev.get(graph.XSI_TYPE) and prev.get(graph.XSI_TYPE) != e.get(graph.XSI_TYPE):
                        mixed.append(e.get("id"))
                        break
                    prev = prev.getprevious()
        mixed_pool = set(mixed)
        stats["pool-members-of-mixed-class-lists"] = len(mixed)
        for pool in (leaves, roots, popular, plends, plparents, multi, reqrels, mixed):
            rng.shuffle(pool)
            plan += pool[:share]
            if pool is plends or pool is plparents:
                refusal_pool.update(pool[:share])
        rng.shuffle(plan)
        # every other reload works on a FRAGMENTED copy of the model (packages / components moved to files of their own): references into
        # and out of the deleted subtree then cross file boundaries ("type path#id") and have to be found and purged all the same
        frag_dirs: list = []
        frag_cands = [e.get("id") for e in all_sem if len(e) >= 3 and e.get(graph.XSI_TYPE)
                      and (e.get(graph.XSI_TYPE).endswith("Pkg") or e.get(graph.XSI_TYPE).endswith("Component"))]
        n_loads = [0]

        def load_model():
            import capellambse
            n_loads[0] += 1
            if "resources" in spec0 or n_loads[0] % 2 == 1 or len(frag_cands) < 2:
                return corpus.load(spec0)
            import fragmenter, shutil, tempfile
            td = pathlib.Path(tempfile.mkdtemp(prefix="c09frag-"))
            frag_dirs.append(td)
            src_ = pathlib.Path(spec0["path"]).parent
            shutil.copytree(src_, td / "m", ignore=shutil.ignore_patterns("*.license"))
            capella_ = next(p_.name for p_ in src_.glob("*.capella"))
            chosen_ = sorted(rng.sample(frag_cands, min(4, len(frag_cands))), key=lambda u: len(list(byid[u].iterancestors())))
            picks_ = [(u, ("fragments/" if i_ % 2 else "") + f"F{i_}.capellafragment") for i_, u in enumerate(chosen_)]
            fragmenter.fragment_model(td / "m", capella_, pathlib.Path(spec0["path"]).name, picks_, aird_style="chain" if n_loads[0] % 4 == 0 else "direct")
            stats["loads-of-a-fragmented-copy"] += 1
            return capellambse.MelodyModel(str(td / "m" / pathlib.Path(spec0["path"]).name))

        del plan_model
        base_broken = None
        for tid in plan:
            if base_broken is None:
                base_broken = broken_tokens(corpus.load(spec0)._loader)
            if model is None or done % per_model_reload == 0:
                model = load_model()
                A = graph.Abstraction()
                if done:
                    # states reached by prior edits
                    r = histories.HistoryRunner(model, rng)
                    for _ in range(6):
                        r.step()
            done += 1
            loader = model._loader
            # a state in which some reference no longer resolves (left by an earlier step: e.g. a reference to a link element that a
            # purge removed) is outside what the property speaks about — relations of such holders raise and the reference search
            # cannot see them; start again from a fresh load
            if broken_tokens(loader) - base_broken:
                stats["reloaded: earlier steps left unresolvable references"] += 1
                model = load_model()
                A = graph.Abstraction()
                loader = model._loader
            try:
                obj = model.by_uuid(tid)
            except KeyError:
                continue
            forced_entry = None
            if tid in reqrel_pool:
                # a requirement relation is deleted through the `relations` list of one of the requirements it connects — which need
                # not be the element it is stored under (outgoing relations live below the Capella element, internal ones below the source)
                ends_ = []
                for end_ in ("source", "target"):
                    try:
                        e_ = getattr(obj, end_)
                    except Exception:  # noqa: BLE001
                        e_ = None
                    if e_ is not None and type(e_).__name__ == "Requirement":
                        ends_.append(e_)
                cont = None
                if ends_:
                    req_ = rng.choice(ends_)
                    try:
                        l_ = req_.relations
                        i_ = next(k_ for k_, x_ in enumerate(l_) if x_.uuid == tid)
                        cont = (req_, "relations", l_, i_)
                        forced_entry = rng.choice(["delitem", "remove", "pop"])
                        stats["requirement-relation-deletions"] += 1
                    except Exception:  # noqa: BLE001
                        cont = None
            else:
                cont = find_container(obj)
            if cont is None:
                stats["no-container"] += 1
                continue
            par, relname, lst, idx = cont
            del_acc = getattr(type(par), relname)
            tel = obj._element
            # ---- the entry point decides how many objects go at once
            entry = forced_entry or rng.choice(["delitem", "delitem", "remove", "delete_all", "delattr", "delattr", "delslice", "delslice", "decl", "decl", "clear", "pop",
                                                 "delete_all_attr", "delete_all_attr", "decl_empty"])
            if tid in mixed_pool and not forced_entry and rng.random() < 0.8:
                entry = "delete_all_attr"
            if tid in refusal_pool:
                # where a refusal is likely, delete it together with its siblings: all-or-nothing has to hold for the whole call
                entry = rng.choice(["delattr", "delattr", "delslice", "decl", "delitem"])
            if tid in refusal_pool and entry == "delattr" and rng.random() < 0.6:
                # make sure a member that CAN be deleted comes first (the stock models list the refusing ones first)
                try:
                    fresh = lst.create(name="c09 deletable first member")
                    lst.insert(0, fresh)
                    lst = getattr(par, relname)
                    idx = next(i_ for i_, e_ in enumerate(lst._elements) if e_ is obj._element)
                    stats["fresh-member-put-first"] += 1
                except Exception:  # noqa: BLE001
                    lst = getattr(par, relname)
            members = list(lst._elements)
            lo = hi = None
            if entry == "delslice":
                lo = max(0, idx - rng.randint(0, 2))
                hi = min(len(members), idx + 1 + rng.randint(0, 2))
                roots_el = members[lo:hi]
            elif entry == "delattr":
                if len(members) > 40:
                    entry = "delitem"
                    roots_el = [tel]
                else:
                    roots_el = members
            elif entry == "delete_all_attr":
                # delete_all(<attribute>=<value the target has>): the members with that value go — all of them, or, when selecting fails on
                # a member (a list of mixed classes, the attribute missing on one of them), none
                fa_ = rng.choice(["kind", "is_abstract", "name", "xtype", "visibility", "min_length", "is_actor", "is_human", "direction"])
                if tid in mixed_pool:
                    # an attribute the target's class has and the class of a member BEFORE it has not
                    own_ = [a_ for a_ in dir(type(obj)) if not a_.startswith("_") and any(not hasattr(type(m_), a_) for m_ in list(lst)[:idx])]
                    rng.shuffle(own_)
                    for a_ in own_[:12]:
                        try:
                            v_ = getattr(obj, a_)
                        except Exception:  # noqa: BLE001
                            continue
                        if v_ is None or isinstance(v_, (str, bool, int, float)) or type(v_).__module__.endswith("modeltypes"):
                            fa_ = a_
                            break
                try:
                    fv_ = getattr(obj, fa_)
                except Exception:  # noqa: BLE001
                    fa_, fv_ = "xtype", obj.xtype
                da_kw = {fa_: fv_}
                da_sel_fails = False
                roots_el = []
                for m_obj in reversed(list(lst)):
                    try:
                        if getattr(m_obj, fa_) == fv_:
                            roots_el.append(m_obj._element)
                    except Exception:  # noqa: BLE001
                        stats["delete_all-filter-attribute-missing-on-a-member"] += 1
                        da_sel_fails = True
                        break
                if len(roots_el) > 40 or not roots_el:
                    entry = "delitem"
                    roots_el = [tel]
            elif entry == "decl_empty":
                roots_el = []
            elif entry == "clear":
                if len(members) > 40:
                    entry = "delitem"
                    roots_el = [tel]
                else:
                    roots_el = list(reversed(members))      # MutableSequence.clear() pops from the end
            elif entry == "decl":
                pick = [idx] + rng.sample([i for i in range(len(members)) if i != idx], min(len(members) - 1, rng.choice([1, 1, 2])))
                if rng.random() < 0.7:
                    pick.sort()
                roots_el = [members[i] for i in pick]
                if any(not r.get("id") for r in roots_el):
                    entry = "delitem"
                    roots_el = [tel]
            else:
                roots_el = [tel]
            if tid in refusal_pool and entry in ("delslice", "decl") and len(members) > 1:
                # a member that can be deleted FOLLOWED by one that refuses: the call must fail as a whole
                ref_ = [any(d_.get("id") in plends_set for d_ in m_.iter() if isinstance(d_.tag, str)) for m_ in members]
                pairs_ = [(i_, j_) for i_ in range(len(members)) if not ref_[i_] for j_ in range(i_ + 1, len(members)) if ref_[j_]]
                if pairs_:
                    i_, j_ = rng.choice(pairs_)
                    if entry == "delslice":
                        lo, hi = i_, j_ + 1
                        roots_el = members[lo:hi]
                    elif all(members[k_].get("id") for k_ in (i_, j_)):
                        roots_el = [members[i_], members[j_]]
                    stats["deletable-then-refusing-members"] += 1
            # the deleted subtrees, fragment placeholders followed (what hangs below a placeholder is below the target in the glued tree)
            frag_root_by_id = {}
            for p_, t_ in sem_trees(loader):
                rid = t_.root.get("id")
                if rid:
                    frag_root_by_id[rid] = t_.root
            T, stack_ = [], list(reversed(roots_el))
            while stack_:
                cur = stack_.pop()
                for e in cur.iter():
                    if not isinstance(e.tag, str):
                        continue
                    T.append(e)
                    if e.get("href"):
                        fr_ = frag_root_by_id.get(e.get("href").split("#")[-1])
                        if fr_ is not None:
                            stack_.append(fr_)
            Tset = {id(e) for e in T}
            tids = {e.get("id") for e in T if e.get("id")}
            # ---- exposure of references, from the implementation's own reference search (C10 checks that search)
            exposed_attr: set[tuple[int, str]] = set()
            link_elems: dict[int, str] = {}
            refusing: set[int] = set()
            for e in T:
                if not e.get("id"):
                    continue
                try:
                    o = _obj.ModelElement.from_model(model, e)
                    refs = list(model.find_references(o))
                except Exception:  # noqa: BLE001
                    continue
                for ref, attr, _ in refs:
                    acc = getattr(type(ref), attr, None)
                    while isinstance(acc, D.TypecastAccessor):
                        acc = getattr(type(ref), acc.attr, None)
                    if acc is del_acc or not isinstance(acc, D.WritableAccessor):
                        continue
                    if id(ref._element) in Tset:
                        continue
                    if isinstance(acc, D.PhysicalLinkEndsAccessor):
                        refusing.add(A.H(ref._element))
                        exposed_attr.add((A.H(ref._element), acc.attr))
                    elif isinstance(acc, D.AttrProxyAccessor):
                        exposed_attr.add((A.H(ref._element), acc.attr))
                    elif isinstance(acc, D.LinkAccessor):
                        for c in ref._element.iterchildren(acc.tag):
                            if A.xtype_of(c) in acc.xtypes and e.get("id") in ref_tokens(c.get(acc.follow, "")):
                                link_elems[A.H(c)] = e.get("id")
            # ---- abstraction for the model
            before = snapshot(loader, A)
            els = []
            watched = set()
            for h, (ph, tag, attrib, _txt) in before.items():
                refs = []
                for k, v in attrib.items():
                    if k in SKIP_ATTRS:
                        continue
                    toks = ref_tokens(v)
                    if toks and any(tk in tids for tk in toks):
                        refs.append([A.S(k), (h, k) in exposed_attr, [A.S(tk) for tk in toks]])
                        watched.add(h)
                lk = link_elems.get(h)
                if lk is not None and ph is not None:
                    watched.add(ph)
                eid = attrib.get("id")
                els.append([h, ph, [A.S(eid)] if eid else [], refs, None if lk is None else A.S(lk)])
            # ---- the deletion, through one of the entry points
            desc = f"{type(obj).__name__}({tid}) via {entry} on {type(par).__name__}.{relname}" + (f" ({len(roots_el)} objects at once)" if len(roots_el) > 1 else "")
            outcome = "ok"
            try:
                if entry == "delitem":
                    del lst[idx if rng.random() < 0.5 else idx - len(lst)]
                elif entry == "remove":
                    lst.remove(obj)
                elif entry == "delete_all":
                    lst.delete_all(uuid=tid)
                elif entry == "delslice":
                    del lst[lo:hi]
                elif entry == "delete_all_attr":
                    lst.delete_all(**da_kw)
                elif entry == "decl_empty":
                    from capellambse import decl
                    decl.apply(model, io.StringIO(f"- parent: !uuid {par.uuid}\n  delete:\n    {relname}: []\n"))
                elif entry == "clear":
                    lst.clear()
                elif entry == "pop":
                    got_ = lst.pop(idx if rng.random() < 0.5 else idx - len(lst))
                    if getattr(got_, "uuid", None) != tid:
                        chk.violation("pop-returns-other-object", f"{desc}: pop() returned {getattr(got_, 'uuid', None)}", {"model": spec0["name"], "target": tid})
                elif entry == "decl":
                    from capellambse import decl
                    yml = f"- parent: !uuid {par.uuid}\n  delete:\n    {relname}:\n" + "".join(f"      - !uuid {r_.get('id')}\n" for r_ in roots_el)
                    decl.apply(model, io.StringIO(yml))
                else:
                    delattr(par, relname)
            except Exception as ex:  # noqa: BLE001
                outcome = type(ex).__name__
            stats[f"{entry}:{outcome}"] += 1
            chk.note_case((spec0["name"], tid, entry), nontrivial=bool(watched) or len(T) > 1)
            after = snapshot(loader, A)
            if entry == "decl_empty":
                # an empty list names no object: nothing is deleted
                if after != before:
                    chk.violation("empty-delete-list-deletes", f"a declarative delete with an EMPTY list for {type(par).__name__}.{relname} ({outcome}) changed "
                                  f"{sum(1 for h in set(before) | set(after) if before.get(h) != after.get(h))} elements",
                                  {"model": spec0["name"], "parent": par.uuid, "relation": relname})
                    model = None
                continue
            if outcome != "ok":
                # a refused deletion leaves the lookups alone as well: every id of the target subtree still resolves to its element
                unfound = []
                for e in T:
                    if e.get("id") and not e.get("href"):
                        try:
                            if loader[e.get("id")] is not e:
                                unfound.append(e.get("id"))
                        except KeyError:
                            unfound.append(e.get("id"))
                if unfound and after == before:
                    chk.violation(f"refused-but-unindexed:{outcome}", f"deleting {desc} raised {outcome} and left the XML alone, but {len(unfound)} ids of the target are no longer "
                                  f"found by their UUID, e.g. {unfound[0]}", {"model": spec0["name"], "target": tid, "entry": entry, "error": outcome, "ids": unfound[:5]})
                    model = None
                    continue
                gone_roots = [A.H(r_) not in after for r_ in roots_el]
                if after != before and entry == "delete_all_attr" and da_sel_fails:
                    chk.violation("delete_all-selection-failed-but-deleted", f"deleting {desc} with {da_kw!r} raised {outcome} while SELECTING the members (one of them has no such "
                                  f"attribute), yet {sum(gone_roots)} members were deleted", {"model": spec0["name"], "target": tid, "entry": entry, "error": outcome, "filter": repr(da_kw)})
                    model = None
                elif after != before and len(roots_el) > 1 and entry in ("delslice", "decl", "clear", "delete_all_attr") and any(gone_roots) and not all(gone_roots) \
                        and gone_roots == sorted(gone_roots, reverse=True):
                    # the objects are deleted one after the other: those before the refusing one are gone
                    chk.violation(f"partial-multi-delete:{entry}", f"deleting {desc} raised {outcome} after {sum(gone_roots)} of the {len(roots_el)} objects had been deleted",
                                  {"model": spec0["name"], "target": tid, "entry": entry, "error": outcome, "objects": [r_.get("id") for r_ in roots_el]})
                    model = None
                elif after != before:
                    ch = [h for h in set(before) | set(after) if before.get(h) != after.get(h)]
                    chk.violation(f"refused-but-changed:{outcome}", f"deleting {desc} raised {outcome} but {len(ch)} elements changed",
                                  {"model": spec0["name"], "target": tid, "entry": entry, "error": outcome})
                    model = None
                elif not refusing:
                    # raising without changing anything is within the property ("or raises and leaves the model unchanged")
                    stats[f"raised-unchanged:{entry}:{outcome}"] += 1
                else:
                    stats["refused-by-physical-link-end"] += 1
                continue
            spans = [e for e in T if e.get("href")]
            if spans:
                # the target contains fragment placeholders: what hangs below them lives in other files
                left = []
                for e in T:
                    if e.get("id") and not e.get("href"):
                        try:
                            loader[e.get("id")]
                            left.append(e.get("id"))
                        except KeyError:
                            pass
                stats["deletions-of-subtrees-that-span-fragment-files"] += 1
                if left:
                    chk.violation("orphaned-fragment-after-delete", f"after deleting {desc}, whose subtree continues in {len(spans)} fragment file(s), {len(left)} of its "
                                  f"descendants (those stored in the fragment files) are still loaded and found by their UUID, e.g. {left[0]}",
                                  {"model": spec0["name"], "target": tid, "entry": entry, "still_found": left[:5]})
                model = None
                continue
            # ---- model correspondence: removed handles and the references that remain on the watched holders
            removed = [h for h in before if h not in after]
            exp_refs = []
            for h in sorted(watched & set(after)):
                _, _, attrib, _ = after[h]
                battr = before[h][2]
                rr = []
                for k, v in battr.items():
                    if k in SKIP_ATTRS:
                        continue
                    toks = ref_tokens(v)
                    if toks and any(tk in tids for tk in toks):
                        rr.append([A.S(k), [A.S(tk) for tk in ref_tokens(attrib.get(k, ""))]])
                exp_refs.append([h, rr])
            if len(cases) < (25 if quick else 200):
                order = {h: i for i, h in enumerate(before)}
                cases.append(([els, [A.H(r_) for r_ in roots_el], sorted(watched)], [sorted(removed, key=order.get), sorted(exp_refs, key=lambda x: order[x[0]])]))
                descs.append(desc)
            # ---- oracle (independent of capellambse's reference machinery)
            for u in tids:
                try:
                    loader[u]
                    chk.violation("deleted-still-found", f"after deleting {desc}, lookup of {u} still succeeds", {"model": spec0["name"], "target": tid, "uuid": u})
                except KeyError:
                    pass
            # every reference the reference search had reported before the deletion is gone now
            for (h, k) in sorted(exposed_attr):
                if h in after:
                    left = [tk for tk in ref_tokens(after[h][2].get(k, "")) if tk in tids]
                    if left:
                        chk.violation(f"dangling-exposed:{after[h][1]}:{k}", f"after deleting {desc}, <{after[h][1]} {k}=...> of {after[h][2].get('id')} still references deleted id {left[0]}",
                                      {"model": spec0["name"], "target": tid, "entry": entry, "element": after[h][2].get("id"), "attr": k, "left": left})
            for h, u in sorted(link_elems.items()):
                if h in after:
                    chk.violation(f"dangling-link-element:{after[h][1]}", f"after deleting {desc}, the link element <{after[h][1]}> {after[h][2].get('id')} that refers to deleted id {u} is still there",
                                  {"model": spec0["name"], "target": tid, "entry": entry, "element": after[h][2].get("id"), "refers_to": u})
            # raw scan for dangling tokens
            api_attrs = collections.defaultdict(set)
            for h, (ph, tag, attrib, _t) in after.items():
                for k, v in attrib.items():
                    if k in SKIP_ATTRS:
                        continue
                    hit = [tk for tk in ref_tokens(v) if tk in tids]
                    if not hit:
                        continue
                    e = A.H.elem(h)
                    holder = e if e.get("id") else e.getparent()
                    reach = False
                    try:
                        o = _obj.ModelElement.from_model(model, e)
                        for an in dir(type(o)):
                            a = getattr(type(o), an, None)
                            if isinstance(a, D.AttrProxyAccessor) and a.attr == k and isinstance(a, D.WritableAccessor) and not isinstance(a, D.PhysicalLinkEndsAccessor):
                                reach = True
                    except Exception:  # noqa: BLE001
                        pass
                    if not reach and e.getparent() is not None:
                        # a link element: some LinkAccessor of the parent's class stores references in <tag follow=...>
                        try:
                            po = _obj.ModelElement.from_model(model, e.getparent())
                            for an in dir(type(po)):
                                a = getattr(type(po), an, None)
                                if isinstance(a, D.LinkAccessor) and (a.tag is None or a.tag == tag) and a.follow == k and A.xtype_of(e) in a.xtypes:
                                    reach = True
                        except Exception:  # noqa: BLE001
                            pass
                    if reach:
                        chk.violation(f"dangling-exposed:{tag}:{k}", f"after deleting {desc}, <{tag} {k}=...> still references deleted id {hit[0]}",
                                      {"model": spec0["name"], "target": tid, "entry": entry, "element": attrib.get("id"), "attr": k,
                                       "before": before.get(h, (0, 0, {}))[2].get(k), "after": v, "exposure_known": (h, k) in exposed_attr})
                    else:
                        stats["dangling-raw(not exposed by an accessor)"] += 1
            # holders' relations still evaluate and yield nothing deleted
            for h in list(watched)[:30]:
                if h not in after:
                    continue
                e = A.H.elem(h)
                try:
                    o = _obj.ModelElement.from_model(model, e)
                except Exception:  # noqa: BLE001
                    continue
                for an in dir(type(o)):
                    a = getattr(type(o), an, None)
                    if not isinstance(a, (D.AttrProxyAccessor, D.LinkAccessor, D.DirectProxyAccessor, D.RoleTagAccessor)):
                        continue
                    try:
                        v = getattr(o, an)
                    except Exception as ex:  # noqa: BLE001
                        removed_ids = {before[h_][2].get("id") for h_ in before if h_ not in after}
                        missing_ = TOKEN.findall(str(ex))
                        if isinstance(ex, KeyError) and missing_ and all(m_ in removed_ids and m_ not in tids for m_ in missing_):
                            # second order: the reference goes to a LINK ELEMENT that the purge removed (not to a deleted object)
                            chk.violation("cascade:reference-to-purged-link-element", f"after deleting {desc}, {type(o).__name__}({o.uuid}).{an} raises {ex!r}: it refers to a link "
                                          f"element that was purged because it pointed into the deleted subtree", {"model": spec0["name"], "target": tid, "holder": o.uuid, "attr": an})
                            continue
                        chk.violation(f"relation-raises-after-delete:{type(o).__name__}.{an}:{type(ex).__name__}",
                                      f"after deleting {desc}, {type(o).__name__}({o.uuid}).{an} raises {ex!r}",
                                      {"model": spec0["name"], "target": tid, "holder": o.uuid, "attr": an})
                        continue
                    vs = v if isinstance(v, _obj.ElementList) else [v]
                    for x in vs:
                        if getattr(x, "uuid", None) in tids:
                            chk.violation(f"relation-yields-deleted:{type(o).__name__}.{an}", f"after deleting {desc}, {type(o).__name__}.{an} yields the deleted {x.uuid}",
                                          {"model": spec0["name"], "target": tid, "holder": o.uuid, "attr": an})
            # frame: only the subtree, link elements into it (with their subtrees) and reference tokens into it changed
            linkset = set(link_elems)
            def under(h, roots, snap):
                while h is not None:
                    if h in roots:
                        return True
                    h = snap.get(h, (None,))[0]
                return False
            troot = {A.H(r_) for r_ in roots_el}
            for h in set(before) | set(after):
                b, a = before.get(h), after.get(h)
                if b == a:
                    continue
                if a is None:
                    if under(h, troot, before) or under(h, linkset, before):
                        continue
                    chk.violation(f"collateral-removal:{b[1]}", f"deleting {desc} also removed an unrelated <{b[1]}> ({b[2].get('id')})",
                                  {"model": spec0["name"], "target": tid, "entry": entry, "element": b[2].get("id")})
                elif b is None:
                    chk.violation(f"collateral-addition:{a[1]}", f"deleting {desc} added an element <{a[1]}>", {"model": spec0["name"], "target": tid})
                else:
                    okc = b[0] == a[0] and b[1] == a[1] and b[3] == a[3]
                    for k in set(b[2]) | set(a[2]):
                        if b[2].get(k) == a[2].get(k):
                            continue
                        bt = (b[2].get(k) or "").split()
                        at = (a[2].get(k) or "").split()
                        keep = [x for x in bt if not any(tk in tids for tk in ref_tokens(x))]
                        # typed links take two words ("type path#id"): compare on the id tokens
                        if [tk for tk in ref_tokens(a[2].get(k) or "")] != [tk for tk in ref_tokens(b[2].get(k) or "") if tk not in tids]:
                            okc = False
                    if not okc:
                        chk.violation(f"collateral-change:{b[1]}", f"deleting {desc} altered an unrelated <{b[1]}> ({b[2].get('id')})",
                                      {"model": spec0["name"], "target": tid, "entry": entry, "before": str(b)[:300], "after": str(a)[:300]})
        model = None
        for td in frag_dirs:
            __import__("shutil").rmtree(td, ignore_errors=True)
    chk.correspond("From V Require Import Model.Delete.", "w_delete", cases, tag="C09_del", shard=1, timeout=900,
                   describe=lambda i: descs[i])
    chk.coverage.update({"outcomes": dict(sorted(stats.items())),
                         "rule": "targets stratified over leaves, subtree roots, the most referenced ids and ids referenced from PhysicalLink ends (refusal), in freshly "
                                 "loaded models and in states reached by random edits, through del list[i] (positive/negative index) / pop / remove / delete_all / clear / del obj.attr / del list[a:b] (several objects) / a declarative delete: with several "
                                 "entries; a sixth target pool holds subtrees of which one holder's relation references several members; "
                                 "after each deletion: lookups of all deleted ids, a raw token scan of every remaining attribute, every relation of the former holders, "
                                 "and an element-by-element diff of the whole model; the model's predicted removed set and remaining references are compared in Coq"})
    chk.samples.append(descs[:5])
    chk.assumptions += ["which references are 'exposed' is taken from the implementation's find_references + accessor table (its soundness/completeness is C10's subject); "
                        "the oracle's raw scan and relation evaluation are independent of it"]


if __name__ == "__main__":
    lib.main("C09", run)
