"""C14 — File handlers never reach outside their root."""
from __future__ import annotations

import io
import itertools
import os
import pathlib
import subprocess
import sys
import zipfile

sys.path.insert(0, str(pathlib.Path(__file__).resolve().parent))
import lib
from lib import Err, err_of

ALPHA = ["..", ".", "", "a", "b c", "%2e%2e", "é", "a\\b"]
SUBDIRS = ["/", "sub", "a/b", "../z/./w", "/abs"]
KINDS = {"local": 0, "memory": 1, "zipopen": 2, "ziplist": 3, "git": 4, "http": 5}


def gen_paths(maxlen: int):
    for n in range(0, maxlen + 1):
        for combo in itertools.product(ALPHA, repeat=n):
            s = "/".join(combo)
            yield s
            yield "/" + s


def posix_norm_oracle(parts_root: list[str], target: str) -> bool:
    """independent oracle: textual resolution of `target` stays below parts_root"""
    stack: list[str] = []
    for seg in target.split("/"):
        if seg in ("", "."):
            continue
        if seg == "..":
            if not stack:
                return False
            stack.pop()
        else:
            stack.append(seg)
    return stack[: len(parts_root)] == parts_root


def run(chk: lib.Check):
    from capellambse import helpers
    from capellambse.filehandler import local, memory, http, git as ghgit, abc as fhabc
    from capellambse.filehandler import zip as fhzip
    import capellambse

    pr = chk.prove()
    quick = chk.tier == "quick"
    rng = chk.rng

    # ---------------- (a) normalize_pure_path: model vs implementation, exhaustive over the alphabet
    maxlen = 3 if quick else 5
    paths = list(dict.fromkeys(gen_paths(maxlen)))
    # random longer ones
    for _ in range(300 if quick else 5000):
        n = rng.randint(4, 9)
        s = "/".join(rng.choice(ALPHA + ["x.y", "..a", "...", "a..", " "]) for _ in range(n))
        paths.append(("/" if rng.random() < 0.3 else "") + s)
    bases = ["/", "sub", "a/b", "../q", "/x/../y", "."]
    cases = []
    for p in paths:
        for b in (bases if len(p) < 14 else [rng.choice(bases)]):
            try:
                out = list(helpers.normalize_pure_path(p, base=b).parts)
            except Exception as e:  # noqa: BLE001
                out = err_of(e)
            cases.append(((p, b), out))
            chk.note_case(("norm", p, b), nontrivial=(".." in p))
            # implementation oracle: result never contains '..', is relative
            if not isinstance(out, Err) and (".." in out or (out and out[0].startswith("/"))):
                chk.violation(f"normalize:{p!r}:{b!r}", f"normalize_pure_path({p!r}, base={b!r}) = {out}",
                              {"fn": "normalize_pure_path", "path": p, "base": b, "result": out})
    chk.samples.append({"normalize_pure_path": [cases[7][0], cases[7][1]]})
    chk.correspond("From V Require Import Model.Paths.", "w_normalize", cases, tag="C14_norm",
                   describe=lambda i: {"call": "helpers.normalize_pure_path", "args": cases[i][0]})

    # pathlib splitting stand-in
    pcases = []
    for p in paths[:3000]:
        pp = pathlib.PurePosixPath(p)
        parts = list(pp.parts)
        if pp.is_absolute():
            parts = parts[1:]
        pcases.append((p, [pp.is_absolute(), parts]))
    chk.correspond("From V Require Import Model.Paths.", "w_parts", pcases, tag="C14_parts")

    # quote stand-in
    import urllib.parse
    qcases = []
    for p in paths[:1500]:
        bs = p.encode("utf-8")
        for safe in ("/", ""):
            qcases.append(((safe.encode(), bs), urllib.parse.quote(p, safe=safe).encode("ascii")))
    for b in range(256):
        qcases.append(((b"/", bytes([b])), urllib.parse.quote_from_bytes(bytes([b]), safe="/").encode("ascii")))
    chk.correspond("From V Require Import Model.Quote.", "w_quote", qcases, tag="C14_quote")

    # ---------------- (b) every handler × subdir × entry point: what reaches the backing store
    hpaths = list(dict.fromkeys(gen_paths(2 if quick else 4)))
    for _ in range(60 if quick else 600):
        n = rng.randint(3, 6)
        hpaths.append(("/" if rng.random() < 0.3 else "") + "/".join(rng.choice(ALPHA) for _ in range(n)))
    tcases = []
    url_cases = []
    b_ = lambda x: x.encode("utf-8", "surrogateescape")
    counts = {k: 0 for k in KINDS}
    counts_list: dict = {}
    with lib.scratch("c14-") as tmp:
        rootdir = tmp / "root"
        rootdir.mkdir()
        (tmp / "outside.txt").write_bytes(b"secret")
        # zip with a few members
        zpath = tmp / "z.zip"
        with zipfile.ZipFile(zpath, "w") as zf:
            for name in ("a", "sub/a", "a/b/a", "x", "z/w/a", "abs/a"):
                zf.writestr(name, b"data")
        # git repo
        os.environ["XDG_CACHE_HOME"] = str(tmp / "cache")
        repo = tmp / "repo"
        repo.mkdir()
        env = dict(os.environ, GIT_AUTHOR_NAME="v", GIT_AUTHOR_EMAIL="v@v", GIT_COMMITTER_NAME="v",
                   GIT_COMMITTER_EMAIL="v@v", GIT_CONFIG_GLOBAL="/dev/null")
        for cmd in (["git", "init", "-q", "-b", "main"],):
            subprocess.run(cmd, cwd=repo, env=env, check=True)
        (repo / "sub").mkdir()
        (repo / "a").write_text("x")
        (repo / "sub" / "a").write_text("x")
        subprocess.run(["git", "add", "."], cwd=repo, env=env, check=True)
        subprocess.run(["git", "commit", "-q", "-m", "i"], cwd=repo, env=env, check=True)

        for sub in SUBDIRS:
            sub_parts = list(helpers.normalize_pure_path(sub).parts)
            handlers = {}
            # --- local
            lh = local.LocalFileHandler(rootdir, subdir=sub)
            handlers["local"] = lh
            mh = memory.MemoryFileHandler(subdir=sub)
            handlers["memory"] = mh
            zh = fhzip.ZipFileHandler(str(zpath), subdir=sub)
            handlers["zip"] = zh
            hh = http.HTTPFileHandler("http://host.invalid/base/%s", subdir=sub)
            handlers["http"] = hh
            try:
                gh = ghgit.GitFileHandler(str(repo), "main", subdir=sub)
            except Exception as e:  # noqa: BLE001
                gh = None
                chk.broken.append(f"harness: GitFileHandler could not be built: {e!r}")
            for f in hpaths:
                # local: record the path given to Path.open
                rec: list[pathlib.Path] = []
                orig_open = pathlib.Path.open

                def fake_open(self, *a, **k):
                    rec.append(pathlib.Path(self))
                    raise FileNotFoundError(str(self))
                pathlib.Path.open = fake_open
                try:
                    try:
                        lh.open(f)
                    except FileNotFoundError:
                        pass
                    except Exception as e:  # noqa: BLE001
                        rec.append(err_of(e))
                finally:
                    pathlib.Path.open = orig_open
                if rec and not isinstance(rec[0], Err):
                    rel = os.path.relpath(str(rec[0]), str(rootdir)) if False else None
                    parts = list(pathlib.PurePosixPath(str(rec[0])[len(str(rootdir)):]).parts)
                    parts = [x for x in parts if x != "/"]
                    tcases.append(((KINDS["local"], sub, f), parts))
                    counts["local"] += 1
                    real = os.path.realpath(str(rec[0]))
                    base_real = os.path.realpath(os.path.join(str(rootdir), *sub_parts))
                    if not (real == base_real or real.startswith(base_real + os.sep)):
                        chk.violation(f"local:{sub}:{f!r}", f"LocalFileHandler(subdir={sub!r}).open({f!r}) touches {real}",
                                      {"handler": "local", "subdir": sub, "file": f, "real": real})
                # memory (write creates the key)
                mh._data.clear()
                try:
                    mh.open(f, "wb")
                    key = next(iter(mh._data))
                    parts = list(key.parts)
                    tcases.append(((KINDS["memory"], sub, f), parts))
                    counts["memory"] += 1
                    if not posix_norm_oracle(sub_parts, str(key)) or ".." in parts:
                        chk.violation(f"memory:{sub}:{f!r}", f"MemoryFileHandler(subdir={sub!r}).open({f!r},'wb') stores {key}",
                                      {"handler": "memory", "subdir": sub, "file": f, "key": str(key)})
                except Exception as e:  # noqa: BLE001
                    tcases.append(((KINDS["memory"], sub, f), err_of(e)))
                # zip open: record member name
                zrec: list[str] = []
                orig_zopen = zipfile.ZipFile.open

                def fake_zopen(self, name, *a, **k):
                    zrec.append(name if isinstance(name, str) else name.filename)
                    raise KeyError(name)
                zipfile.ZipFile.open = fake_zopen
                try:
                    try:
                        zh.open(f)
                    except FileNotFoundError:
                        pass
                    except Exception as e:  # noqa: BLE001
                        zrec.append(err_of(e))
                finally:
                    zipfile.ZipFile.open = orig_zopen
                if zrec and not isinstance(zrec[0], Err):
                    parts = [x for x in zrec[0].split("/") if x not in ("", ".")]
                    tcases.append(((KINDS["zipopen"], sub, f), parts))
                    counts["zipopen"] += 1
                    # EVERY member the handler asks the archive for — also second attempts after a miss — lies below the subdir
                    for zname in zrec:
                        if isinstance(zname, Err):
                            continue
                        zparts = [x for x in zname.split("/") if x not in ("", ".")]
                        if not posix_norm_oracle(sub_parts, zname) or ".." in zparts:
                            chk.violation(f"zipopen:{sub}:{f!r}", f"ZipFileHandler(subdir={sub!r}).open({f!r}) asks the archive for member {zname!r}"
                                          + (" (after the first lookup missed)" if zname is not zrec[0] else ""),
                                          {"handler": "zip", "subdir": sub, "file": f, "member": zname, "all_lookups": [str(z) for z in zrec]})
                            break
                # zip listing entry points
                try:
                    _, zp = fhzip._normalize_path(f, zh.subdir)
                    parts = [x for x in zp.split("/") if x not in ("", ".")]
                    tcases.append(((KINDS["ziplist"], sub, f), parts))
                    counts["ziplist"] += 1
                    if not posix_norm_oracle(sub_parts, zp) or ".." in parts:
                        chk.violation(f"ziplist:{sub}:{f!r}", f"zip listing of {f!r} under subdir {sub!r} uses {zp!r}",
                                      {"handler": "ziplist", "subdir": sub, "file": f, "zpath": zp})
                except Exception as e:  # noqa: BLE001
                    tcases.append(((KINDS["ziplist"], sub, f), err_of(e)))
                # http
                urls: list[str] = []
                orig_ds = http.DownloadStream

                class FakeDS:
                    def __init__(self, session, url, *a, **k):
                        urls.append(url)
                http.DownloadStream = FakeDS
                try:
                    try:
                        hh.open(f)
                    except Exception as e:  # noqa: BLE001
                        urls.append(err_of(e))
                finally:
                    http.DownloadStream = orig_ds
                if urls and not isinstance(urls[0], Err):
                    url = urls[0]
                    okprefix = url.startswith("http://host.invalid/base/")
                    tail = url[len("http://host.invalid/base/"):]
                    segs = [urllib.parse.unquote(x) for x in tail.split("/") if x not in ("", ".")]
                    tcases.append(((KINDS["http"], sub, f), segs))
                    counts["http"] += 1
                    if (not okprefix or "?" in tail or "#" in tail or " " in tail or "\\" in tail
                            or ".." in tail.split("/") or segs[: len(sub_parts)] != sub_parts):
                        chk.violation(f"http:{sub}:{f!r}", f"HTTPFileHandler(subdir={sub!r}).open({f!r}) requests {url}",
                                      {"handler": "http", "subdir": sub, "file": f, "url": url})
                # git
                if gh is not None:
                    try:
                        try:
                            fh = gh.open(f)
                            name = fh.name
                            fh.close()
                        except (FileNotFoundError, IsADirectoryError, NotADirectoryError) as e:
                            name = e.filename
                        rel = str(name)[len(str(gh.cache_dir)):]
                        parts = [x for x in rel.split("/") if x not in ("", ".")]
                        tcases.append(((KINDS["git"], sub, f), parts))
                        counts["git"] += 1
                        real = os.path.realpath(str(name))
                        base_real = os.path.realpath(os.path.join(str(gh.cache_dir), *sub_parts))
                        if not (real == base_real or real.startswith(base_real + os.sep)):
                            chk.violation(f"git:{sub}:{f!r}", f"GitFileHandler(subdir={sub!r}).open({f!r}) touches {real}",
                                          {"handler": "git", "subdir": sub, "file": f, "real": real})
                    except Exception as e:  # noqa: BLE001
                        tcases.append(((KINDS["git"], sub, f), err_of(e)))
                chk.note_case(("h", sub, f), nontrivial=(".." in f or f.startswith("/")))
            # listing: the directories a handler's iterdir() reads lie below its root, whatever the argument; what it yields has no
            # ".." and is relative
            orig_iterdir = pathlib.Path.iterdir
            for kind_, h_ in (("local", lh), ("git", gh), ("memory", mh), ("zip", zh)):
                if h_ is None:
                    continue
                if kind_ == "local":
                    base_real = os.path.realpath(os.path.join(str(rootdir), *sub_parts))
                    os.makedirs(os.path.join(base_real, "a", "b c"), exist_ok=True)
                elif kind_ == "git":
                    base_real = os.path.realpath(os.path.join(str(gh.cache_dir), *sub_parts))
                for d_ in hpaths:
                    seen_: list = []

                    def fake_iterdir(self):
                        if isinstance(self, pathlib.PosixPath):
                            seen_.append(str(self))
                        return orig_iterdir(self)
                    pathlib.Path.iterdir = fake_iterdir
                    try:
                        try:
                            got_ = list(h_.iterdir(d_))
                        except Exception:  # noqa: BLE001
                            got_ = []
                    finally:
                        pathlib.Path.iterdir = orig_iterdir
                    counts_list[kind_] = counts_list.get(kind_, 0) + 1
                    if kind_ in ("local", "git"):
                        for s_ in seen_:
                            real = os.path.realpath(s_)
                            if not (real == base_real or real.startswith(base_real + os.sep)):
                                chk.violation(f"iterdir:{kind_}:{sub}:{d_!r}", f"{type(h_).__name__}(subdir={sub!r}).iterdir({d_!r}) lists {real}, outside {base_real}",
                                              {"handler": kind_, "subdir": sub, "dir": d_, "real": real})
                    for g_ in got_:
                        gp_ = pathlib.PurePosixPath(str(getattr(g_, "_path", g_)))
                        if ".." in gp_.parts or gp_.is_absolute():
                            chk.violation(f"iterdir-yield:{kind_}:{sub}:{d_!r}", f"{type(h_).__name__}(subdir={sub!r}).iterdir({d_!r}) yields {gp_}",
                                          {"handler": kind_, "subdir": sub, "dir": d_, "yielded": str(gp_)})
            # writes through the git handler, all names in one dry-run transaction: whatever appears in the file system (files AND
            # directories, also ones left behind after the rollback) lies below the work tree's subdir
            if gh is not None:
                def fs_snapshot():
                    out = set()
                    # the scratch directory and the place where the handler keeps its work trees (two levels up: siblings of the tree)
                    for top in (str(tmp), str(pathlib.Path(str(gh.cache_dir)).parent)):
                        for dp, dns, fns in os.walk(top):
                            if os.sep + ".git" in dp or dp.endswith(".git"):
                                continue
                            for n_ in dns + fns:
                                if n_ != ".git":
                                    out.add(os.path.join(dp, n_))
                    return out
                base_real = os.path.realpath(os.path.join(str(gh.cache_dir), *sub_parts))
                before_fs = fs_snapshot()
                during: set = set()
                try:
                    with gh.write_transaction(dry_run=True, push=False):
                        for f in hpaths:
                            try:
                                fh = gh.open(f, "wb")
                                fh.write(b"x")
                                fh.close()
                                counts["git"] += 1
                            except Exception:  # noqa: BLE001  refusing a name is fine
                                pass
                        during = fs_snapshot()
                except Exception as e:  # noqa: BLE001
                    counts["git-write-transaction-raises"] = counts.get("git-write-transaction-raises", 0) + 1
                after_fs = fs_snapshot()
                import re as _re
                wt_area = str(pathlib.Path(str(gh.cache_dir)).parent)
                for pth in sorted((during | after_fs) - before_fs):
                    real = os.path.realpath(pth)
                    # work trees of OTHER handler instances / processes come and go in the same area: not ours to judge
                    rel_ = os.path.relpath(real, wt_area)
                    if not rel_.startswith("..") and _re.match(r"capellambse-\d+-", rel_.split(os.sep)[0]) and not real.startswith(str(gh.cache_dir)):
                        continue
                    if not (real == base_real or real.startswith(base_real + os.sep) or base_real.startswith(real + os.sep)):
                        chk.violation(f"git-write-outside:{sub}", f"writing through GitFileHandler(subdir={sub!r}) created {real}, outside {base_real}",
                                      {"handler": "git", "subdir": sub, "created": real, "left_after_rollback": pth in after_fs})
                        break
            # every URL placeholder: the inserted text must not add path, query or fragment structure
            templates = ["http://host.invalid/base/%d/%n.%e?rev=1", "http://host.invalid/get?file=%q&rev=1", "http://host.invalid/%s/raw"]
            specials = ["a/model.x&admin=1", "a/m.y#frag", "a/m.z?q=1", "d e/n m.a%41b", "a/../b/c.d=e", "m.aird", "x/y.z w", "a/b.c;d", "n.é", "a/q.%2e%2e"]
            for tpl in templates:
                th = http.HTTPFileHandler(tpl, subdir=sub)
                for f in hpaths[:60] + specials:
                    urls2: list = []
                    http.DownloadStream = type("FakeDS2", (), {"__init__": lambda self, session, url, *a, **k: urls2.append(url)})
                    try:
                        try:
                            th.open(f)
                        except Exception as e:  # noqa: BLE001
                            urls2.append(err_of(e))
                    finally:
                        http.DownloadStream = orig_ds
                    if not urls2 or isinstance(urls2[0], Err):
                        continue
                    url = urls2[0]
                    sp = urllib.parse.urlsplit(url)
                    tsp = urllib.parse.urlsplit(tpl)
                    norm = list(helpers.normalize_pure_path(f).parts)
                    full = pathlib.PurePosixPath(*sub_parts, *norm) if (sub_parts or norm) else pathlib.PurePosixPath(".")
                    bad = None
                    if sp.fragment or (sp.netloc != tsp.netloc):
                        bad = "fragment or host changed"
                    elif "%q" in tpl:
                        q = urllib.parse.parse_qsl(sp.query, keep_blank_values=True)
                        if [k for k, _ in q] != ["file", "rev"] or q[1][1] != "1" or q[0][1] != str(full).lstrip("/"):
                            bad = f"query structure {q}"
                    elif "%d" in tpl and not full.name:
                        pass        # the handler's own path arithmetic refuses an empty name; nothing to compare
                    elif "%d" in tpl:
                        want_path = "/base/" + urllib.parse.quote(str(full.parent).lstrip("/")) + "/" + urllib.parse.quote(full.with_suffix("").name) + "." + urllib.parse.quote(full.suffix.lstrip("."))
                        if sp.query != "rev=1" or urllib.parse.unquote(sp.path) != urllib.parse.unquote(want_path) or sp.path.count("/") != want_path.count("/"):
                            bad = f"path {sp.path!r} query {sp.query!r} (expected path {want_path!r}, query 'rev=1')"
                    else:
                        if sp.query or not sp.path.endswith("/raw") or ".." in sp.path.split("/"):
                            bad = f"path {sp.path!r} query {sp.query!r}"
                    chk.note_case(("url", tpl, sub, f), nontrivial=True)
                    if full.name:
                        url_cases.append(((b_(tpl), b_(str(full).lstrip("/")), b_(str(full.parent).lstrip("/")), b_(full.with_suffix("").name),
                                           b_(full.suffix.lstrip("."))), b_(url)))
                    if bad:
                        chk.violation(f"http-url-structure:{'%q' if '%q' in tpl else '%d%n%e' if '%d' in tpl else '%s'}",
                                      f"HTTPFileHandler({tpl!r}, subdir={sub!r}).open({f!r}) requests {url!r}: {bad}",
                                      {"handler": "http", "template": tpl, "subdir": sub, "file": f, "url": url})
            # FilePath.joinpath from the handler's rootdir
            for f in hpaths[:200]:
                try:
                    fp = mh.rootdir.joinpath("d").joinpath(f)
                    if ".." in pathlib.PurePosixPath(str(fp)).parts:
                        chk.violation(f"joinpath:{f!r}", f"FilePath.joinpath({f!r}) = {fp}", {"file": f, "result": str(fp)})
                except Exception:  # noqa: BLE001
                    pass
            if gh is not None:
                del gh
        import gc
        gc.collect()
    chk.samples.append({"handler_target": [tcases[11][0], tcases[11][1]] if len(tcases) > 11 else None})
    chk.coverage["handler_cases"] = counts
    chk.coverage["iterdir_calls_judged"] = counts_list
    chk.coverage["rule"] = ("exhaustive over component alphabet %r with optional leading '/', length <= %d for normalize_pure_path "
                            "(x %d bases) and <= %d for each handler x %d subdirs; plus seeded random longer strings; "
                            "non-trivial = contains '..' or is absolute" % (ALPHA, maxlen, len(bases), 2 if quick else 4, len(SUBDIRS)))
    chk.coverage["exhaustive"] = True
    chk.correspond("From V Require Import Model.HttpUrl.", "w_http_url", url_cases, tag="C14_url")
    chk.correspond("From V Require Import Model.Paths.", "w_target", tcases, tag="C14_target",
                   describe=lambda i: {"handler/subdir/file": tcases[i][0]})
    chk.assumptions += [
        "pathlib.PurePosixPath splitting and urllib.parse.quote are stand-ins (Model/Paths.v posix_parts, Model/Quote.v) sampled here",
        "symlinks inside the root are outside the model; the oracle resolves real paths for local and git handlers",
    ]


if __name__ == "__main__":
    lib.main("C14", run)
