"""Common machinery for all property checks.

Run with /venv/bin/python (the interpreter that has /repo's dependencies).
"""
from __future__ import annotations

import contextlib
import fcntl
import hashlib
import json
import os
import pathlib
import random
import re
import shutil
import subprocess
import sys
import tempfile
import time
import typing as t

VERIF = pathlib.Path(__file__).resolve().parent.parent
REPO = pathlib.Path(os.environ.get("VERIF_REPO", "/repo"))
COQ = VERIF / "coq"
GUARD = "CAPELLAMBSE_VERIF"
OUT = VERIF            # evidence/ and replay/ live here
if REPO.resolve() != pathlib.Path("/repo"):
    # Private mode (mutation testing / parallel agents): check another tree without
    # disturbing /verif/coq, /verif/evidence or /verif/replay.
    import atexit
    _work = pathlib.Path(tempfile.mkdtemp(prefix="verifwork-"))
    subprocess.run(["cp", "-a", str(VERIF / "coq"), str(_work / "coq")], check=True)
    COQ = _work / "coq"
    OUT = pathlib.Path(os.environ.get("VERIF_OUT") or (_work / "out"))
    OUT.mkdir(parents=True, exist_ok=True)
    if not os.environ.get("VERIF_OUT"):
        atexit.register(lambda: shutil.rmtree(_work, ignore_errors=True))
    else:
        atexit.register(lambda: shutil.rmtree(_work / "coq", ignore_errors=True))
os.environ["VERIF_COQ_DIR"] = str(COQ)
os.environ["VERIF_REPO"] = str(REPO)
os.environ["VERIF_TOOLS"] = str(VERIF / "tools")

os.environ.setdefault("PYTHONHASHSEED", "0")
os.environ.setdefault("TZ", "UTC")
os.environ[GUARD] = "1"
if str(REPO) not in sys.path:
    sys.path.insert(0, str(REPO))


def assert_tree_under_check() -> None:
    """The implementation that is exercised must be the tree under check — never another copy of the package that happens to be
    importable (the virtualenv has /repo installed in editable mode: if VERIF_REPO points to a directory that has disappeared, the
    import would silently fall back to it and the check would pass on the wrong code)."""
    if not (REPO / "capellambse" / "__init__.py").is_file():
        raise SystemExit(f"VERIF_REPO={REPO} is not a py-capellambse tree (capellambse/__init__.py is missing): refusing to check something else")
    import capellambse
    got = pathlib.Path(capellambse.__file__).resolve()
    if got != (REPO / "capellambse" / "__init__.py").resolve():
        raise SystemExit(f"capellambse was imported from {got}, not from the tree under check {REPO}: refusing to report on the wrong code")

# ---------------------------------------------------------------- values
ERRS = {
    "KeyError": 1, "ValueError": 2, "TypeError": 3, "IndexError": 4,
    "RuntimeError": 5, "AssertionError": 6, "FileNotFoundError": 7,
    "OSError": 8, "NotImplementedError": 9, "CorruptModelError": 10,
    "NonUniqueMemberError": 11, "InvalidModificationError": 12,
    "UnfulfilledPromisesError": 13, "OutOfFuel": 14, "ZeroDivisionError": 15,
    "Other": 16, "Malformed": 17, "KeyboardInterrupt": 18,
    "AttributeError": 19, "BrokenModelError": 20,
}


class Err:
    """An exception outcome, compared by class only."""

    def __init__(self, name: str):
        self.name = name if name in ERRS else "Other"
        self.raw = name

    def __eq__(self, o):
        return isinstance(o, Err) and o.name == self.name

    def __hash__(self):
        return hash(("Err", self.name))

    def __repr__(self):
        return f"Err({self.raw})"


def err_of(exc: BaseException) -> Err:
    for cls in type(exc).__mro__:
        if cls.__name__ in ERRS:
            return Err(cls.__name__)
    return Err(type(exc).__name__)


def to_coq(v: t.Any) -> str:
    if isinstance(v, bool):
        return f"VB {'true' if v else 'false'}"
    if isinstance(v, int):
        return f"VZ ({v})"
    if isinstance(v, str):
        return "VS [" + ";".join(str(ord(c)) for c in v) + "]"
    if isinstance(v, (bytes, bytearray)):
        return "VS [" + ";".join(str(c) for c in v) + "]"
    if v is None:
        return "VNone"
    if isinstance(v, Err):
        return f"VE {ERRS[v.name]}"
    if isinstance(v, (list, tuple)):
        return "VL [" + ";".join(to_coq(x) for x in v) + "]"
    raise TypeError(f"cannot encode {type(v)}")


def jsonable(v: t.Any) -> t.Any:
    if isinstance(v, Err):
        return {"err": v.raw}
    if isinstance(v, (bytes, bytearray)):
        return {"bytes": bytes(v).hex()}
    if isinstance(v, (list, tuple)):
        return [jsonable(x) for x in v]
    if isinstance(v, dict):
        return {str(k): jsonable(x) for k, x in v.items()}
    if isinstance(v, (str, int, float, bool)) or v is None:
        return v
    return repr(v)


# ---------------------------------------------------------------- coq
@contextlib.contextmanager
def build_lock():
    lock = COQ / ".lock"
    with open(lock, "w") as fh:
        fcntl.flock(fh, fcntl.LOCK_EX)
        try:
            yield
        finally:
            fcntl.flock(fh, fcntl.LOCK_UN)


def sh(cmd: list[str] | str, *, timeout: int = 600, cwd=None, env=None, shell=False):
    try:
        p = subprocess.run(
            cmd, cwd=cwd, env=env, shell=shell, timeout=timeout,
            stdout=subprocess.PIPE, stderr=subprocess.STDOUT, text=True, errors="replace",
        )
        return p.returncode, p.stdout
    except subprocess.TimeoutExpired as e:
        out = e.stdout.decode("utf-8", "replace") if isinstance(e.stdout, bytes) else (e.stdout or "")
        return 124, out + "\n[timeout]"


FORBIDDEN = re.compile(
    r"\b(Admitted|admit|Axiom|Axioms|Parameter|Parameters|Conjecture|Conjectures|Admit Obligations|bypass_check|Unset Guard Checking|Unset Positivity Checking|Unset Universe Checking|type-in-type|impredicative-set)\b"
)


def strip_coq_comments(src: str) -> str:
    out, depth, i = [], 0, 0
    while i < len(src):
        if src.startswith("(*", i):
            depth += 1; i += 2
        elif src.startswith("*)", i) and depth:
            depth -= 1; i += 2
        else:
            if not depth:
                out.append(src[i])
            i += 1
    return "".join(out)


def hygiene() -> list[str]:
    """Forbidden declarations anywhere in the development (comments ignored)."""
    bad = []
    for f in sorted(COQ.glob("*/*.v")):
        if f.parent.name == "Cases":
            continue
        src = strip_coq_comments(f.read_text())
        # 'Variable'/'Hypothesis' outside a Section
        depth = 0
        for ln_no, ln in enumerate(src.splitlines(), 1):
            m = FORBIDDEN.search(ln)
            if m:
                bad.append(f"{f.relative_to(COQ)}:{ln_no}: {m.group(1)}")
            s = ln.strip()
            if re.match(r"Section\s", s):
                depth += 1
            elif re.match(r"End\s", s) and depth:
                depth -= 1
            elif depth == 0 and re.match(r"(Variable|Variables|Hypothesis|Hypotheses|Context)\b", s):
                bad.append(f"{f.relative_to(COQ)}:{ln_no}: {s.split()[0]} outside a section")
    return bad


class ProofResult(t.NamedTuple):
    ok: bool
    obligations: int
    discharged: int
    theorems: list[str]
    assumptions: dict[str, str]   # theorem -> "closed" | axiom text
    log: str
    broken: list[str]


def build_props(pid: str, *, timeout: int = 900, extra_targets: list[str] = ()) -> ProofResult:
    """Regenerate, then compile Props/<pid>.v (and its whole cone) from scratch
    for the Props file itself; parse Print Assumptions."""
    props = COQ / "Props" / f"{pid}.v"
    src = strip_coq_comments(props.read_text())
    theorems = re.findall(r"^\s*(?:Theorem|Lemma|Corollary)\s+([A-Za-z0-9_']+)", src, re.M)
    printed = re.findall(r"Print Assumptions\s+([A-Za-z0-9_'.]+)\s*\.", src)
    broken: list[str] = []
    env = dict(os.environ, FORCE_REBUILD=f"Props/{pid}")
    rc, log = sh(["timeout", str(timeout), str(COQ / "mk.sh"), f"Props/{pid}.vo", *extra_targets], timeout=timeout + 30, env=env)
    # A failing generator leaves a stub .v that does not compile, so it breaks exactly the
    # cones that depend on its output; the GENERATOR-FAILED line is kept in the log only.
    gen_failed = [ln for ln in log.splitlines() if ln.startswith("GENERATOR-FAILED")]
    hyg = hygiene()
    assumptions: dict[str, str] = {}
    if rc == 0:
        # Print Assumptions output, in order
        chunks = re.split(r"(?=Closed under the global context|Axioms:)", log)
        outs = [c for c in chunks if c.startswith("Closed under") or c.startswith("Axioms:")]
        for name, c in zip(printed, outs):
            assumptions[name] = "closed" if c.startswith("Closed") else c.strip()
    else:
        m = re.search(r'File "\./([^"]+)", line (\d+).*?\n(Error:.*?)(?:\n\n|\Z)', log, re.S)
        broken.append((f"coq: {m.group(1)}:{m.group(2)} {m.group(3)[:300]}" if m else "coq build failed: " + log[-400:])
                      + ("  [" + "; ".join(gen_failed)[:300] + "]" if gen_failed and m and m.group(1).startswith("Gen/") else ""))
    missing = [x for x in theorems if x not in printed]
    if missing:
        broken.append("no Print Assumptions for: " + ", ".join(missing))
    if hyg:
        broken.append("hygiene: " + "; ".join(hyg[:5]))
    ok = rc == 0 and not broken
    return ProofResult(ok, len(theorems), len(theorems) if rc == 0 else 0, theorems, assumptions, log, broken)


_BUILT: set[str] = set()


def ensure_built(imports: str) -> None:
    """The modules a case file imports need not be in the dependency cone of Props/<pid>.vo (which prove() builds): on a fresh
    checkout their .vo files do not exist yet.  Build them (and Model/Val.vo) through coq/mk.sh once per process."""
    mods = {"Model.Val"}
    for stmt in re.findall(r"From\s+V\s+Require\s+(?:Import|Export)\s+(.*?)\.(?:\s|$)", imports + " ", flags=re.S):
        mods.update(x for x in stmt.split() if re.fullmatch(r"[A-Za-z_][\w.]*", x))
    # always through make: an existing .vo may be stale (a dependency outside the cone of Props/<pid>.vo was edited)
    todo = sorted(m for m in mods if m not in _BUILT)
    _BUILT.update(mods)
    if todo:
        sh([str(COQ / "mk.sh"), *[m.replace(".", "/") + ".vo" for m in todo]], timeout=1800)


def coq_failing(imports: str, fn: str, cases: list[tuple[t.Any, t.Any]], *, tag: str,
                shard: int = 400, timeout: int = 600) -> tuple[list[int], str]:
    """Evaluate the model wrapper `fn : val -> val` on every case input inside
    Coq (vm_compute) and return the indices where it differs from the expected
    (implementation) output.  Returns (failing indices, log)."""
    cdir = COQ / "Cases"
    cdir.mkdir(exist_ok=True)
    ensure_built(imports)
    tag = f"{tag}_p{os.getpid()}"      # concurrent runs of the same check must not share case files
    files = []
    for k in range(0, len(cases), shard):
        chunk = cases[k:k + shard]
        name = f"{tag}_{k // shard}"
        body = [imports, "From V Require Import Model.Val.", "From Coq Require Import ZArith NArith List.",
                "Import ListNotations.", "Open Scope N_scope.",
                "Definition cases : list (val * val) := ["]
        body.append(";\n".join(f"({to_coq(i)}, {to_coq(o)})" for i, o in chunk))
        body.append("].")
        body.append(f"Definition res := Eval vm_compute in failing {fn} cases.")
        body.append("Print res.")
        (cdir / f"{name}.v").write_text("\n".join(body) + "\n")
        files.append((k, name))
    if not files:
        return [], ""
    procs = []
    failing: list[int] = []
    logs = []
    maxp = 14
    pending = list(files)
    running: list[tuple[int, str, subprocess.Popen]] = []

    def reap(block: bool):
        for item in list(running):
            k, name, p = item
            if block:
                try:
                    out, _ = p.communicate(timeout=timeout)
                except subprocess.TimeoutExpired:
                    p.kill(); out, _ = p.communicate(); out += "\n[timeout]"
            elif p.poll() is None:
                continue
            else:
                out, _ = p.communicate()
            running.remove(item)
            flat = " ".join(out.split())
            m = re.search(r"res = \[(.*?)\]", flat)
            if p.returncode != 0 or not m:
                logs.append(f"{name}: rc={p.returncode} {out[-600:]}")
                failing.extend(range(k, min(k + shard, len(cases))))
            elif m.group(1).strip():
                failing.extend(k + int(x.replace("%nat", "")) for x in m.group(1).split(";"))
            for ext in (".v", ".vo", ".vok", ".vos", ".glob"):
                with contextlib.suppress(FileNotFoundError):
                    (cdir / f"{name}{ext}").unlink()
            with contextlib.suppress(FileNotFoundError):
                (cdir / f".{name}.aux").unlink()

    while pending or running:
        while pending and len(running) < maxp:
            k, name = pending.pop(0)
            p = subprocess.Popen(
                ["bash", "-c", f"ulimit -s unlimited 2>/dev/null; exec timeout {timeout} coqc -Q {COQ} V {cdir / (name + '.v')}"],
                stdout=subprocess.PIPE, stderr=subprocess.STDOUT, text=True, errors="replace")
            running.append((k, name, p))
        reap(block=False)
        if running and (len(running) >= maxp or not pending):
            # wait for one
            running[0][2].wait()
            reap(block=False)
    return sorted(set(failing)), "\n".join(logs)


def parse_val(txt: str):
    """parse a Coq-printed [val] back into Python (diagnostics only)"""
    toks = re.findall(r"VL|VZ|VS|VB|VNone|VE|true|false|\[|\]|;|\(|\)|-?\d+", txt.replace("%Z", "").replace("%N", ""))
    pos = 0

    def val():
        nonlocal pos
        t = toks[pos]; pos += 1
        if t == "(":
            v = val(); pos += 1
            return v
        if t == "VNone":
            return None
        if t == "VZ":
            return num()
        if t == "VE":
            code = num()
            return Err(next((k for k, c in ERRS.items() if c == code), "Other"))
        if t == "VB":
            t2 = toks[pos]; pos += 1
            return t2 == "true"
        if t in ("VS", "VL"):
            assert toks[pos] == "[", toks[pos - 2:pos + 3]
            pos += 1
            out = []
            while toks[pos] != "]":
                out.append(num() if t == "VS" else val())
                if toks[pos] == ";":
                    pos += 1
            pos += 1
            return "".join(chr(c) for c in out) if t == "VS" else out
        raise ValueError(f"unexpected token {t}")

    def num():
        nonlocal pos
        t = toks[pos]; pos += 1
        if t == "(":
            v = num(); pos += 1
            return v
        return int(t)
    return val()


def coq_eval(imports: str, fn: str, inp: t.Any, *, timeout: int = 300):
    """model output for one input (diagnostics)"""
    cdir = COQ / "Cases"
    cdir.mkdir(exist_ok=True)
    name = f"eval_{os.getpid()}_{abs(hash(fn)) % 10000}"
    f = cdir / f"{name}.v"
    f.write_text("\n".join([imports, "From V Require Import Model.Val.", "From Coq Require Import ZArith NArith List.",
                            "Import ListNotations.", "Open Scope N_scope.",
                            f"Definition out := Eval vm_compute in {fn} ({to_coq(inp)}).", "Print out."]) + "\n")
    rc, out = sh(["bash", "-c", f"ulimit -s unlimited 2>/dev/null; exec timeout {timeout} coqc -Q {COQ} V {f}"], timeout=timeout + 10)
    for ext in (".v", ".vo", ".vok", ".vos", ".glob"):
        with contextlib.suppress(FileNotFoundError):
            (cdir / f"{name}{ext}").unlink()
    with contextlib.suppress(FileNotFoundError):
        (cdir / f".{name}.aux").unlink()
    m = re.search(r"out\s*=\s*(.*?)\s*:\s*val", " ".join(out.split()))
    if rc != 0 or not m:
        return Err("Malformed")
    try:
        return parse_val(m.group(1))
    except Exception:  # noqa: BLE001
        return m.group(1)[:2000]


# ---------------------------------------------------------------- known findings
def load_known() -> list[dict]:
    """known_findings.json plus the per-property fragments known_findings.d/*.json"""
    out: list[dict] = []
    files = [VERIF / "known_findings.json"] + sorted((VERIF / "known_findings.d").glob("*.json"))
    for f in files:
        if f.exists():
            out.extend(json.loads(f.read_text()).get("findings", []))
    return out


# ---------------------------------------------------------------- check driver
class Finding(t.NamedTuple):
    key: str          # stable identification of the failing input / call site
    what: str         # human-readable
    replay: dict      # enough to replay


class Check:
    """Collects the outcome of one check run and renders verdict + evidence."""

    def __init__(self, pid: str, tier: str, seed: int, level: str = "proof"):
        self.pid, self.tier, self.seed, self.level = pid, tier, seed, level
        self.t0 = time.time()
        self.findings: list[Finding] = []       # property violated on the implementation
        self.broken: list[str] = []             # proof obligations / correspondence that no longer check
        self.coverage: dict[str, t.Any] = {}
        self.assumptions: list[str] = []
        self.samples: list[t.Any] = []
        self.rng = random.Random(seed)
        self.proof: ProofResult | None = None
        self.corr_cases = 0
        self.corr_disagreements: list[t.Any] = []
        self.evaluations = 0
        self.distinct: set[str] = set()

    # -- proof
    def prove(self, **kw) -> ProofResult:
        pr = build_props(self.pid, **kw)
        self.proof = pr
        for b in pr.broken:
            self.broken.append(f"proof: {b}")
        if self.tier == "thorough" and pr.ok:
            # independent re-check of the compiled property file and everything it depends on
            rc, out = sh(["timeout", "1500", "coqchk", "-silent", "-o", "-Q", str(COQ), "V", f"V.Props.{self.pid}"], timeout=1600)
            m = re.search(r"\* Axioms:(.*?)\n\s*\n\* Constants/Inductives relying on type-in-type:(.*?)\n\s*\n\* Constants/Inductives relying on unsafe \(co\)fixpoints:(.*?)\n\s*\n\* Inductives whose positivity is assumed:(.*?)\n", out + "\n", re.S)
            summary = {"exit": rc}
            if m:
                summary.update({"axioms": " ".join(m.group(1).split()), "type_in_type": " ".join(m.group(2).split()),
                                "unsafe_fixpoints": " ".join(m.group(3).split()), "assumed_positivity": " ".join(m.group(4).split())})
            self.coverage["coqchk"] = summary
            if rc != 0 or not m or any(summary[k] != "<none>" for k in ("type_in_type", "unsafe_fixpoints", "assumed_positivity")):
                self.broken.append(f"proof: coqchk does not accept Props/{self.pid}.vo: {out[-300:]}")
        return pr

    # -- correspondence
    def correspond(self, imports: str, fn: str, cases: list[tuple[t.Any, t.Any]], *, tag: str | None = None,
                   describe: t.Callable[[int], t.Any] | None = None, **kw) -> list[int]:
        if self.proof is not None and self.proof.discharged == 0 and self.proof.obligations:
            # models may still compile even when proofs are broken: build Model only
            sh([str(COQ / "mk.sh"), "-k"] + [str(p.relative_to(COQ)) + "o" for p in COQ.glob("Model/*.v")], timeout=900)
        bad, log = coq_failing(imports, fn, cases, tag=tag or f"{self.pid}_{fn.replace('.', '_')}", **kw)
        self.corr_cases += len(cases)
        for n_, i in enumerate(bad[:20]):
            d = {"fn": fn, "input": jsonable(cases[i][0]), "impl": jsonable(cases[i][1])}
            if n_ < 2:
                d["model"] = jsonable(coq_eval(imports, fn, cases[i][0]))
            if describe:
                d["desc"] = jsonable(describe(i))
            self.corr_disagreements.append(d)
        if bad:
            self.broken.append(f"correspondence: {fn} disagrees with the implementation on {len(bad)}/{len(cases)} cases"
                               + (f" [{log[:300]}]" if log else ""))
        return bad

    def note_case(self, key: t.Any, nontrivial: bool = True):
        self.evaluations += 1
        if nontrivial:
            self.distinct.add(hashlib.sha1(repr(key).encode()).hexdigest()[:16])

    def violation(self, key: str, what: str, replay: dict):
        self.findings.append(Finding(key, what, replay))

    # -- verdict
    def finish(self) -> int:
        known = [k for k in load_known() if k.get("property") == self.pid and k.get("status", "open") == "open"]
        known_keys = {k["key"]: k for k in known}
        rdir = OUT / "replay"
        rdir.mkdir(exist_ok=True)
        if not getattr(self, "replay_file", None):
            for old in rdir.glob(f"{self.pid}-*.json"):
                old.unlink()
        new: dict[str, Finding] = {}
        seen_known: dict[str, Finding] = {}
        for f in self.findings:
            match = None
            for kk in known_keys:
                if f.key == kk or (kk.endswith("*") and f.key.startswith(kk[:-1])):
                    match = kk
                    break
            if match:
                seen_known.setdefault(match, f)
            else:
                new.setdefault(f.key, f)
        rc = 0
        lines = []
        for kk, f in seen_known.items():
            lines.append(f"KNOWN-FINDING: property={self.pid} {known_keys[kk].get('what', f.what)} [{kk}]")
        n = 0
        for key, f in list(new.items())[:10]:
            path = rdir / f"{self.pid}-{n}.json"
            path.write_text(json.dumps({"property": self.pid, "key": key, "what": f.what, "replay": jsonable(f.replay),
                                        "seed": self.seed, "tier": self.tier}, indent=1))
            lines.append(f"VIOLATION property={self.pid} replay={path}")
            n += 1
            rc = 1
        if self.broken and not new:
            # a broken obligation whose cause is entirely explained by listed known findings is not re-reported
            path = rdir / f"{self.pid}-broken.json"
            path.write_text(json.dumps({"property": self.pid, "no_longer_checks": self.broken,
                                        "disagreements": self.corr_disagreements[:20],
                                        "seed": self.seed, "tier": self.tier,
                                        "note": "no failing input was found on the implementation; the property is no longer shown to hold"}, indent=1))
            lines.append(f"VIOLATION property={self.pid} replay={path} no-failing-input-found")
            rc = 1
        elif self.broken:
            path = rdir / f"{self.pid}-broken.json"
            path.write_text(json.dumps({"property": self.pid, "no_longer_checks": self.broken,
                                        "disagreements": self.corr_disagreements[:20]}, indent=1))
        self.write_evidence(len(new) + (1 if (self.broken and not new) else 0), sorted(seen_known))
        for ln in lines:
            print(ln)
        wall = time.time() - self.t0
        print(f"[{self.pid}] tier={self.tier} seed={self.seed} proof={'ok' if self.proof and self.proof.ok else 'BROKEN' if self.proof else 'n/a'} "
              f"obligations={self.proof.discharged if self.proof else 0}/{self.proof.obligations if self.proof else 0} "
              f"corr_cases={self.corr_cases} disagreements={len(self.corr_disagreements)} impl_cases={self.evaluations} "
              f"findings={len(new)} known={len(seen_known)} wall={wall:.1f}s")
        for b in self.broken:
            print(f"[{self.pid}] BROKEN {b}")
        return rc

    def write_evidence(self, violations: int, known_seen: list[str]):
        pr = self.proof
        cov = dict(self.coverage)
        if pr:
            cov.update({
                "obligations": pr.obligations,
                "discharged": pr.discharged,
                "checker_cmd": f"coq/mk.sh Props/{self.pid}.vo  (coqc 8.16.1, full .vo build; Print Assumptions per theorem)",
                "theorems": pr.theorems,
                "print_assumptions": pr.assumptions,
                "trusted_base": TRUSTED_BASE + self.assumptions,
            })
        cov["evaluations"] = max(self.evaluations + self.corr_cases, 1)
        cov["distinct_nontrivial"] = len(self.distinct)
        cov["traces_validated_against_impl"] = self.corr_cases
        cov["correspondence_cases"] = self.corr_cases
        cov["correspondence_disagreements"] = len(self.corr_disagreements)
        cov["disagreements_checked"] = len(self.corr_disagreements)
        cov["programs"] = max(self.corr_cases, 1)
        cov.setdefault("rule", "see DESIGN.md section for this property")
        cov["samples"] = [jsonable(s) for s in self.samples[:8]] or ["(no sample recorded)"]
        cov["known_findings_seen"] = known_seen
        cov["broken"] = self.broken
        ev = {
            "property_id": self.pid, "tier": self.tier, "seed": self.seed, "level": self.level,
            "coverage": cov, "assumptions": TRUSTED_BASE + self.assumptions,
            "wall_s": round(time.time() - self.t0, 2), "violations": violations,
        }
        (OUT / "evidence").mkdir(exist_ok=True)
        (OUT / "evidence" / f"{self.pid}.json").write_text(json.dumps(ev, indent=1))


TRUSTED_BASE = [
    "Coq 8.16.1 kernel and vm_compute (no native_compute)",
    "harness/lib.py value encoding and coq/Model/Val.v val_eqb",
    "tools/gen_*.py constant extractors / py2gallina translator",
]


@contextlib.contextmanager
def scratch(prefix="verif-"):
    d = pathlib.Path(tempfile.mkdtemp(prefix=prefix))
    try:
        yield d
    finally:
        shutil.rmtree(d, ignore_errors=True)


def main(pid: str, run: t.Callable[[Check], None], level: str = "proof"):
    import argparse
    ap = argparse.ArgumentParser()
    ap.add_argument("--tier", default=os.environ.get("VERIF_TIER", "quick"))
    ap.add_argument("--replay")
    a = ap.parse_args()
    seed = int(os.environ.get("VERIF_SEED", "0") or 0)
    tier = a.tier if a.tier in ("quick", "thorough") else "quick"
    if a.replay:
        # a replay re-runs the (deterministic, seeded) check with the seed and tier recorded in the replay file;
        # checks that support narrowing (e.g. C03: a single history) read chk.replay_file themselves
        try:
            rp = json.loads(pathlib.Path(a.replay).read_text())
            seed = int(rp.get("seed", seed))
            tier = rp.get("tier", tier)
            print(f"[{pid}] replaying {a.replay}: seed={seed} tier={tier} key={rp.get('key')}")
            print(json.dumps(rp.get("replay", rp.get("no_longer_checks")), indent=1)[:3000])
        except Exception as e:  # noqa: BLE001
            print(f"[{pid}] cannot read replay file: {e}")
    chk = Check(pid, tier, seed, level)
    chk.replay_file = a.replay
    try:
        assert_tree_under_check()
        run(chk)
        # ... and it must still be that tree at the end (a scratch worktree removed under a running check would make later imports
        # fall back to another copy of the package)
        stray = sorted({str(getattr(m_, "__file__", "")) for n_, m_ in list(sys.modules.items())
                        if (n_ == "capellambse" or n_.startswith("capellambse.")) and getattr(m_, "__file__", None)
                        and not str(pathlib.Path(m_.__file__).resolve()).startswith(str(REPO.resolve()) + os.sep)})
        if stray or not (REPO / "capellambse" / "__init__.py").is_file():
            chk.broken.append(f"the tree under check {REPO} was not the only source of the implementation during the run "
                              f"(missing now: {not (REPO / 'capellambse' / '__init__.py').is_file()}; modules from elsewhere: {stray[:3]})")
    except BaseException as e:  # a crashing check must not look like a pass
        import traceback
        traceback.print_exc()
        chk.broken.append(f"harness crashed: {type(e).__name__}: {e}")
    sys.exit(chk.finish())
