"""C01 — Unmodified load-then-save reproduces Capella's files byte for byte; the writer is canonical."""
from __future__ import annotations

import copy
import hashlib
import io
import pathlib
import shutil
import sys

sys.path.insert(0, str(pathlib.Path(__file__).resolve().parent))
import lib
import xmlenc
from lib import Err, err_of

import lxml.etree as ET

import os
RUN = os.getpid()      # case-file tags are per process: concurrent runs of the same check do not collide
IMP = "From V Require Import Model.SerExs Model.XmlRead."
XSI = "http://www.w3.org/2001/XMLSchema-instance"
XMI = "http://www.omg.org/XMI"
# the four attributes the writer moves to the front (the property's "Capella's attribute order"): their
# position in the source tree is not information, the relative order of all others is
PRIO = (f"{{{XMI}}}version", f"{{{XMI}}}type", f"{{{XMI}}}id", f"{{{XSI}}}type")
KNOWN = {"cdata": "text-cdata-end", "blank": "blank-only-leaf-text", "empty": "empty-string-text"}


# ------------------------------------------------------------------ independent wrap scanner
def scan_tags(text: str, ll: int | None):
    """Walk the start tags of a written document.  Returns (events, problems) where an event is
    (column reached before the attribute separator, broke?, depth, forced?) and a problem is a
    string.  Rule checked when ll is given: an attribute starts a new line iff the column
    reached before it exceeds ll or it follows the root's `id`; continuation lines are indented
    by 2*(depth+2).  Assumes ASCII tag names and no mixed content (pos == column)."""
    events, problems = [], []
    i, n, depth, first = 0, len(text), 0, True
    while i < n:
        if text.startswith("<!--", i):
            i = text.index("-->", i) + 3
            continue
        if text.startswith("<?", i):
            i = text.index("?>", i) + 2
            continue
        ch = text[i]
        if ch == "<" and text[i + 1] == "/":
            depth -= 1
            i = text.index(">", i) + 1
            continue
        if ch == "<":
            j = i + 1
            while text[j] not in " \n/>":
                j += 1
            is_root, first = first, False
            prev = None
            while True:
                k = j
                while text[k] in " \n\t\r":
                    k += 1
                sep = text[j:k]
                if text[k] == ">":
                    depth += 1
                    j = k + 1
                    break
                if text.startswith("/>", k):
                    j = k + 2
                    break
                col_before = j - (text.rfind("\n", 0, j) + 1)
                broke = "\n" in sep
                forced = is_root and prev == "id"
                events.append((col_before, broke, depth, forced))
                if ll is not None:
                    if broke != (col_before > ll or forced):
                        problems.append(f"attribute at offset {k}: column before it {col_before}, line break {broke}, forced {forced}")
                    if broke and sep != "\n" + "  " * (depth + 2):
                        problems.append(f"attribute at offset {k}: continuation indent {len(sep) - 1} at depth {depth}")
                    if not broke and sep != " ":
                        problems.append(f"attribute at offset {k}: separator {sep!r}")
                e = text.index("=", k)
                prev = text[k:e]
                if text[e + 1] != '"':
                    problems.append(f"attribute at offset {k}: value not double-quoted")
                    return events, problems
                j = text.index('"', e + 2) + 1
            i = j
            continue
        i += 1
    return events, problems


# ------------------------------------------------------------------ implementation drivers
def impl_write(exs, root, ll) -> bytes | Err:
    buf = io.BytesIO()
    try:
        exs.write(root, buf, line_length=ll, siblings=True)
    except Exception as e:  # noqa: BLE001
        return err_of(e)
    return buf.getvalue()


def lxml_view(e) -> list:
    """the element as Model/XmlRead.v's sem_of_relem presents it"""
    def qn(name, nsmap):
        uri, local = xmlenc.split_q(name)
        if not uri:
            return local
        pref = [p for p, u in nsmap.items() if u == uri and p]
        return f"{pref[-1]}:{local}"
    par = e.getparent()
    pm = par.nsmap if par is not None else {}
    own = [(p, u) for p, u in e.nsmap.items() if pm.get(p) != u]
    own.sort(key=lambda pu: ({"xmi": 0, "xsi": 1}.get(pu[0], 2), pu[0]))
    return [qn(e.tag, e.nsmap), [[f"xmlns:{p}", u] for p, u in own], [[qn(k, e.nsmap), v] for k, v in e.items()],
            [lxml_view(c) for c in e]]


def lxml_view_t(e) -> list:
    """the element as Model/XmlRead.v's sem_of_relem_t presents it (stage B reader: text included)"""
    v = lxml_view(e)
    return [v[0], v[1], v[2], e.text if e.text else None, [lxml_view_t(c) for c in e]]


# ------------------------------------------------------------------ generated Capella-shaped trees
TEXT_ALPHABET = ['"', "&", "<", ">", "'", "\t", "\n", "\r", "\x7f", " ", "\u0085", " ", "\U0001F600",
                 "�", "é", " ", "]]>", "&amp;", "&#x41;", "a", "Z", "0", ";", "#"]


class Gen:
    def __init__(self, rng, pools):
        self.rng, self.pools = rng, pools

    def value(self, n: int, *, plain=False) -> str:
        r = self.rng
        if plain:
            return "".join(r.choice("abcdefghijklmnopqrstuvwxyz0123456789-_ ") for _ in range(n))
        out = []
        while sum(map(len, out)) < n:
            out.append(r.choice(TEXT_ALPHABET) if r.random() < 0.25 else r.choice("abcdefghij klmnop-_#/"))
        return "".join(out)[:n] if n else ""

    def skeleton(self, depth: int, *, ns_keep: float = 1.0, comments=((), ())):
        """root copied from a corpus fragment (tag, attributes, a subset of its namespaces) with a
        chain of wrapper elements down to `depth`; returns (root, innermost)"""
        r = self.rng
        src = r.choice(self.pools["roots"])
        used = {ET.QName(src).namespace, XSI, XMI}
        nsmap = {p: u for p, u in src.nsmap.items() if u in used or r.random() < ns_keep}
        root = ET.Element(src.tag, nsmap=nsmap)
        for k, v in src.items():
            root.set(k, v)
        for c in comments[0]:
            root.addprevious(ET.Comment(c))
        for c in reversed(comments[1]):
            root.addnext(ET.Comment(c))
        cur = root
        for d in range(depth):
            cur = ET.SubElement(cur, r.choice(["ownedArchitectures", "ownedFunctionPkg", "ownedFunctions", "ownedLogicalComponents", "ownedExtensions"]))
            cur.set(f"{{{XSI}}}type", "org.polarsys.capella.core.data.la:LogicalFunction")
            cur.set("id", "%08x-0000-4000-8000-%012x" % (r.getrandbits(32), d))
        return root, cur

    def payload(self, parent, *, children=False):
        src = self.rng.choice(self.pools["elems"])
        e = copy.deepcopy(src)
        e.tail = None
        if not children:
            for c in list(e):
                e.remove(c)
            e.text = None
        parent.append(e)
        return e


def gen_cases(chk, pools, n_target):
    """yields (kind, features, build) — build(neutral: set[str]) -> (root, ll)"""
    rng = chk.rng
    g = Gen(rng, pools)
    quick = chk.tier == "quick"

    def text_of(s, neutral):
        if "cdata" in neutral:
            s = s.replace("]]>", "]]x")
        if "blank" in neutral and s and not s.strip():
            s = "x"
        return s

    out = []
    # K1: wrap sweep — every depth 0..14, attribute value lengths so that the column before the next
    # attribute runs through the wrap column
    # ... plus depths at which the indentation and the tag name alone reach and pass the wrap column (the FIRST attribute then wraps)
    depths = list(range(0, 15)) + [22, 26, 30, 32, 33, 34, 36, 40, 46]
    for depth in depths:
        for rep in range(1 if quick else 6):
            seed = rng.getrandbits(48)
            for L in ((range(0, 96, 1) if not quick else range(rng.randrange(3), 96, 3)) if depth < 15 else (0, 1, 7, 30, 79, 95)):
                def build(neutral, seed=seed, depth=depth, L=L):
                    import random
                    g2 = Gen(random.Random(seed), pools)
                    root, cur = g2.skeleton(depth, ns_keep=0.1)
                    e = g2.payload(cur)
                    keys = [k for k in e.keys()]
                    r2 = random.Random(seed + 1)
                    if not keys:
                        e.set("name", "")
                        keys = ["name"]
                    j = r2.randrange(len(keys))
                    plain = r2.random() < 0.7
                    e.set(keys[j], text_of(g2.value(L, plain=plain), neutral))
                    if r2.random() < 0.5:
                        e.set("summary", text_of(g2.value(r2.randrange(0, 30), plain=plain), neutral))
                    return root, (80 if r2.random() < 0.9 else sys.maxsize)
                out.append(("wrap", set(), build))
    # K1b: the root's own attributes (forced break after id, namespace declarations wrapping)
    for rep in range(10 if quick else 80):
        seed = rng.getrandbits(48)

        def build(neutral, seed=seed):
            import random
            r2 = random.Random(seed)
            g2 = Gen(r2, pools)
            root, _ = g2.skeleton(r2.randrange(0, 3), ns_keep=r2.random())
            if r2.random() < 0.7:
                root.set("name", g2.value(r2.randrange(0, 90), plain=r2.random() < 0.5))
            if r2.random() < 0.3:
                attrs = list(root.items())
                r2.shuffle(attrs)
                for k, _ in attrs:
                    del root.attrib[k]
                for k, v in attrs:
                    root.set(k, v)
            return root, (80 if r2.random() < 0.8 else sys.maxsize)
        out.append(("root", set(), build))
    # K2: every escapable character in attribute values and in text, at start / middle / end
    for ch in TEXT_ALPHABET + [""]:
        for where in ("start", "mid", "end", "only"):
            for target in ("attr", "body", "lang"):
                seed = rng.getrandbits(48)
                feats = set()
                if target != "attr" and ch == "]]>":
                    feats.add("cdata")
                if target != "attr" and where == "only" and not ch.strip():
                    feats.add("blank")

                def build(neutral, seed=seed, ch=ch, where=where, target=target):
                    import random
                    r2 = random.Random(seed)
                    g2 = Gen(r2, pools)
                    root, cur = g2.skeleton(r2.randrange(1, 6), ns_keep=0.1)
                    s = {"start": ch + "abc def", "mid": "abc " + ch + " def", "end": "abc def" + ch, "only": ch}[where]
                    s = text_of(s, neutral)
                    c = ET.SubElement(cur, "ownedConstraints")
                    c.set(f"{{{XSI}}}type", "org.polarsys.capella.core.data.capellacore:Constraint")
                    c.set("id", "0d2edb8f-fa34-4e73-89ec-fb9a63001440")
                    c.set("name", s if target == "attr" else "c")
                    sp = ET.SubElement(c, "ownedSpecification")
                    sp.set(f"{{{XSI}}}type", "org.polarsys.capella.core.data.information.datavalue:OpaqueExpression")
                    sp.set("id", "0d2edb8f-fa34-4e73-89ec-fb9a63001441")
                    b = ET.SubElement(sp, "bodies")
                    b.text = s if target == "body" else "body text"
                    la = ET.SubElement(sp, "languages")
                    la.text = s if target == "lang" else "LinkedText"
                    return root, 80
                out.append(("chars", feats, build))
    # K3: random mixtures — comments around the root, namespace subsets, children kept, bodies empty / None
    for rep in range(n_target):
        seed = rng.getrandbits(48)
        import random as _r
        probe = _r.Random(seed)
        feats = set()

        def build(neutral, seed=seed):
            import random
            r2 = random.Random(seed)
            g2 = Gen(r2, pools)
            nb, na = r2.choice([0, 0, 1, 2]), r2.choice([0, 0, 0, 1, 2])
            ctext = lambda: r2.choice(["Capella_Version_5.0.0", "a>b", "x > y >", "", " spaced ", "é ", "a&amp;b", "a&b<c"])
            root, cur = g2.skeleton(r2.randrange(0, 8), ns_keep=r2.random(), comments=([ctext() for _ in range(nb)], [ctext() for _ in range(na)]))
            for _ in range(r2.randrange(1, 4)):
                e = g2.payload(cur, children=r2.random() < 0.5)
                for el in e.iter():
                    if not isinstance(el.tag, str):
                        continue
                    if r2.random() < 0.3 and len(el.keys()):
                        k = r2.choice(el.keys())
                        el.set(k, text_of(g2.value(r2.randrange(0, 70)), neutral))
                    if el.tag in ("bodies", "languages") and r2.random() < 0.6:
                        el.text = r2.choice([None, "", text_of(g2.value(r2.randrange(1, 40)), neutral), "line1\nline2\n  line3", " lead", "trail "])
            if r2.random() < 0.2:
                e = ET.SubElement(cur, "bodies")
                e.text = r2.choice([None, ""])
            return root, (80 if r2.random() < 0.8 else sys.maxsize)
        out.append(("mix", {"cdata", "blank"}, build))
    return out


def blank_or_cdata(root) -> set[str]:
    """which of the recorded writer defects the tree can trigger"""
    f = set()
    for el in root.iter():
        if not isinstance(el.tag, str):
            continue
        if el.text:
            if "]]>" in el.text:
                f.add("cdata")
            if not el.text.strip() and len(el) == 0:
                f.add("blank")
        elif el.text == "" and len(el) == 0 and el.tag != "bodies":
            f.add("empty")
    return f


def neutralise(root, feats):
    for el in root.iter():
        if not isinstance(el.tag, str):
            continue
        if "cdata" in feats and el.text and "]]>" in el.text:
            el.text = el.text.replace("]]>", "]]x")
        if "blank" in feats and el.text and not el.text.strip() and len(el) == 0:
            el.text = "x" + el.text
        if "empty" in feats and el.text == "" and len(el) == 0 and el.tag != "bodies":
            el.text = None
    return root


def check_doc(exs, root, ll):
    """the writer oracles on one document: returns (bytes | None, list of problems)"""
    b1 = impl_write(exs, root, ll)
    if isinstance(b1, Err):
        return None, [f"write raises {b1.raw}"]
    probs = []
    try:
        t2 = ET.fromstring(b1, xmlenc.parser())
    except ET.XMLSyntaxError as e:
        return b1, [f"written file does not parse: {e}"]
    b2 = impl_write(exs, t2, ll)
    if b2 != b1:
        off = next((i for i, (x, y) in enumerate(zip(b1, b2 if isinstance(b2, bytes) else b"")) if x != y), min(len(b1), len(b2) if isinstance(b2, bytes) else 0))
        probs.append(f"write(parse(write(t))) differs from write(t) at byte {off}: {b1[max(0, off - 30):off + 30]!r} vs {b2[max(0, off - 30):off + 30]!r}" if isinstance(b2, bytes) else f"second write raises {b2.raw}")
    d = xmlenc.tree_diff(root, t2, unordered_first=PRIO)
    if d:
        probs.append("parsed-back tree differs: " + "; ".join(d[:3]))
    _, wp = scan_tags(b1.decode("utf-8"), ll if ll < 10 ** 6 else None)
    if wp:
        probs.append("wrap rule: " + "; ".join(wp[:3]))
    return b1, probs


# ------------------------------------------------------------------ corpus
def corpus_models(data: pathlib.Path):
    models = []
    for aird in sorted(data.rglob("*.aird")):
        kw = {}
        if aird.parent.name == "Library Project":
            kw["resources"] = {"Library Test": str(data / "Library Test")}
        models.append((aird, kw))
    return models


FRAG_EXT = (".aird", ".capella", ".afm", ".airdfragment", ".capellafragment", ".melodymodeller", ".melodyfragment")
SEM_EXT = (".capella", ".capellafragment", ".melodymodeller", ".melodyfragment")


# ------------------------------------------------------------------ fragmented layouts (Capella's layout, built by harness/fragmenter.py)
FRAG_DIRS = ["fragments", "fragments", "fragments/sub dir", "ü/ä b", "f%g", "deep/er/still", ""]
FRAG_NAMES = ["{n}", "{n} {i}", "Frägment {i} — {n}", "x.y {n}", "{n} (copy) #{i}"]


def type_prefixes(root):
    """prefix -> number of elements whose xsi:type / xmi:type value or own tag uses it (raw scan)"""
    cnt: dict[str, int] = {}
    for el in root.iter():
        if not isinstance(el.tag, str):
            continue
        ps = set()
        if el.prefix:
            ps.add(el.prefix)
        for k in (f"{{{XSI}}}type", f"{{{XMI}}}type"):
            v = el.get(k)
            if v and ":" in v:
                ps.add(v.split(":", 1)[0])
        for p in ps:
            cnt[p] = cnt.get(p, 0) + 1
    return cnt


def choose_picks(rng, capella_file: pathlib.Path, n_max: int):
    """subtree roots to move into fragment files: architecture layers and packages (any *Architecture / *Pkg element that has
    children), one of them -- when the model has one -- a subtree that holds EVERY use of its root's type prefix, so that after the
    split the placeholder is the only user of that namespace in the parent file; nested picks allowed (outer first).
    Returns (picks, info)"""
    root = ET.parse(str(capella_file), ET.XMLParser(remove_blank_text=True, huge_tree=True)).getroot()
    total = type_prefixes(root)
    cands, sole = [], []
    for el in root.iter():
        if not isinstance(el.tag, str) or el.getparent() is None or not el.get("id") or not len(el):
            continue
        xt = el.get(f"{{{XSI}}}type") or ""
        if ":" not in xt or not (xt.endswith("Architecture") or xt.endswith("Pkg")):
            continue
        if xt.split(":", 1)[0] not in root.nsmap:
            continue
        # roots typed in Capella's own metamodel only: a fragment root carries its type as a namespaced TAG, and the loader refuses
        # (documented UnsupportedPluginError) tags of add-ons it has no table entry for (e.g. filtering:FilteringCriterionPkg), although
        # it tolerates the same type as an xsi:type value -- a loading limitation, not the writer's / save()'s subject
        if not root.nsmap[xt.split(":", 1)[0]].startswith(("http://www.polarsys.org/capella/core/", "http://www.polarsys.org/capella/common/")):
            continue
        cands.append(el)
        p = xt.split(":", 1)[0]
        if type_prefixes(el).get(p, 0) == total.get(p, 0):
            sole.append(el)
    if not cands:
        return [], {}
    chosen = []
    if sole:
        chosen.append(rng.choice(sole))
    k = rng.randrange(1, n_max + 1)
    pool = list(cands)
    rng.shuffle(pool)
    for el in pool:
        if len(chosen) >= k:
            break
        if any(el is c for c in chosen):
            continue
        chosen.append(el)
    # a nested pick: a package inside an already chosen subtree
    if rng.random() < 0.6:
        inner = [d for c in chosen for d in c.iterdescendants() if any(d is x for x in cands) and not any(d is x for x in chosen)]
        if inner:
            chosen.append(rng.choice(inner))
    chosen.sort(key=lambda e: len(list(e.iterancestors())))
    picks = []
    for i, el in enumerate(chosen):
        d = "fragments" if i == 0 else rng.choice(FRAG_DIRS)          # the first one always in Capella's default sub-directory
        n = (el.get("name") or el.get(f"{{{XSI}}}type").split(":")[-1]).replace("/", "_")[:40]
        fname = rng.choice(FRAG_NAMES).format(n=n, i=i)
        picks.append((el.get("id"), (d + "/" if d else "") + fname + ".capellafragment"))
    nested = sum(1 for i, a in enumerate(chosen) for b in chosen[:i] if any(x is b for x in a.iterancestors()))
    return picks, {"sole_user_of_namespace": int(bool(sole)), "nested": nested, "picks": len(picks)}


def disk_files(d: pathlib.Path) -> list[str]:
    return sorted(p.relative_to(d).as_posix() for p in d.rglob("*") if p.is_file())


def referenced_files(modeldir: pathlib.Path, aird_name: str) -> tuple[set[str], list[str]]:
    """the files a model consists of, by following (raw lxml + posixpath) what the files say: semanticResources / referencedAnalysis
    of the visual files, placeholder hrefs of the semantic files, and the .afm next to the entry point.  Returns (paths relative to the
    model directory, problems)"""
    import posixpath
    import urllib.parse
    seen: set[str] = set()
    problems: list[str] = []
    todo = [aird_name]
    afm = posixpath.splitext(aird_name)[0] + ".afm"
    if (modeldir / afm).is_file():
        seen.add(afm)
    while todo:
        f = todo.pop()
        if f in seen:
            continue
        seen.add(f)
        p = modeldir / f
        if not p.is_file():
            problems.append(f"{f}: referred to by the model but not on disk")
            continue
        try:
            root = ET.parse(str(p), ET.XMLParser(huge_tree=True)).getroot()
        except ET.XMLSyntaxError as e:
            problems.append(f"{f}: does not parse: {e}")
            continue
        base = posixpath.dirname(f)
        refs = []
        for el in root.iter():
            if not isinstance(el.tag, str):
                continue
            if el.tag == "semanticResources" and el.text and posixpath.splitext(f)[1] in (".aird", ".airdfragment"):
                refs.append(el.text.strip())
            h = el.get("href")
            if h and (el.tag == "referencedAnalysis" or posixpath.splitext(f)[1] in SEM_EXT):
                refs.append(h.split("#", 1)[0])
        for r in refs:
            r = urllib.parse.unquote(r)
            if not r or "://" in r or r.startswith("platform:") or r.startswith("/"):
                continue
            if posixpath.splitext(r)[1] not in FRAG_EXT:
                continue
            t = posixpath.normpath(posixpath.join(base, r))
            if t.startswith(".."):
                continue                        # a library outside the model directory
            todo.append(t)
    return seen, problems


def capella_file_oracle(path: pathlib.Path, rel: str, ref_ns: dict[str, str]) -> tuple[list[str], dict]:
    """Capella-compatibility oracle on one written file (raw lxml; no capellambse code): the file parses; namespaces are declared on
    the root only; every prefix used by an element name, an attribute name or an xsi:type / xmi:type value (containment placeholders
    included) is declared there; a semantic file declares nothing else; every declared URI is the one the model's Capella-written main
    file declares for that prefix (so all versioned namespaces of all files of a model agree); the 80-column rule of semantic files.
    Calibrated on every file of the corpus as Capella wrote it (each satisfies it)."""
    probs: list[str] = []
    info = {"placeholders": 0, "placeholder_only_prefixes": []}
    raw = path.read_bytes()
    try:
        root = ET.fromstring(raw, ET.XMLParser(huge_tree=True))
    except ET.XMLSyntaxError as e:
        return [f"{rel}: does not parse: {e}"], info
    semantic = path.suffix in SEM_EXT
    declared = {p: u for p, u in root.nsmap.items() if p}
    used: dict[str, int] = {}
    used_nonph: set[str] = set()
    for el in root.iter():
        if not isinstance(el.tag, str):
            continue
        if el is not root and el.nsmap != root.nsmap:
            probs.append(f"{rel}: <{el.tag}> (id {el.get('id')}) carries a namespace declaration of its own")
            break
        ps = set()
        if el.prefix:
            ps.add(el.prefix)
        for k, v in el.items():
            if k.startswith("{"):
                uri = k[1:].split("}", 1)[0]
                ps.update([p for p, u in el.nsmap.items() if u == uri and p][:1])
            if k in (f"{{{XSI}}}type", f"{{{XMI}}}type") and ":" in v:
                ps.add(v.split(":", 1)[0])
        is_ph = semantic and el.get("href") is not None and el is not root
        info["placeholders"] += is_ph
        for p in ps:
            used[p] = used.get(p, 0) + 1
            if not is_ph:
                used_nonph.add(p)
            if p not in declared:
                probs.append(f"{rel}: prefix {p!r} used by <{el.tag.rsplit('}', 1)[-1]}"
                             f"{' placeholder href=' + el.get('href')[:60] if is_ph else ''}> (xsi:type {el.get(f'{{{XSI}}}type')}) "
                             f"is not declared on the root (declared: {sorted(declared)})")
    info["placeholder_only_prefixes"] = sorted(set(used) - used_nonph)
    probs = list(dict.fromkeys(probs))[:4]
    if semantic:
        extra = sorted(set(declared) - set(used) - {"xmi", "xsi"})
        if extra:
            probs.append(f"{rel}: declares namespaces nothing in the file uses: {extra}")
        for must in ("xmi", "xsi"):
            if must not in declared and used.get(must):
                probs.append(f"{rel}: {must} not declared")
    for p, u in declared.items():
        if p in ref_ns and ref_ns[p] != u:
            probs.append(f"{rel}: prefix {p!r} is bound to {u!r}, the model's main file (as written by Capella) binds it to {ref_ns[p]!r}")
    import re as _re
    vers = {}
    for p, u in declared.items():
        mm = _re.match(r"^http://www\.polarsys\.org/capella/(?:core|common)/.*/(\d+(?:\.\d+)*)$", u or "")
        if mm:
            vers.setdefault(mm.group(1), []).append(p)
    if len(vers) > 1:
        probs.append(f"{rel}: versioned namespaces disagree: { {k: v[:2] for k, v in vers.items()} }")
    if semantic:
        _, wp = scan_tags(raw.decode("utf-8"), 80)
        if wp:
            probs.append(f"{rel}: wrap rule: " + "; ".join(wp[:2]))
    return probs, info


def fragmented_layout(chk, capellambse, data, aird, lseed: int, li: int, quick: bool, frag_stats: dict, frag_fcases: list):
    """one fragmented layout of one corpus model: split, load + save with the tree under check, oracles (see run(), phase 2b)"""
    import fragmenter
    import random as _random
    r2 = _random.Random(lseed)
    mains = sorted(aird.parent.glob("*.capella"))
    if len(mains) != 1:
        return
    capella_name = mains[0].name
    ref_ns = {p: u for p, u in ET.parse(str(mains[0])).getroot().nsmap.items() if p}
    picks, pinfo = choose_picks(r2, mains[0], 3)
    if not picks:
        return
    style = "chain" if li % 3 != 2 else "direct"
    mname = str(aird.parent.relative_to(data))
    rep = {"model": mname, "picks": picks, "aird_style": style, "layout_seed": lseed}
    with lib.scratch("c01f-") as tmp:
        mdir = tmp / "m"
        shutil.copytree(aird.parent, mdir, ignore=shutil.ignore_patterns("*.license"))
        made = fragmenter.fragment_model(mdir, capella_name, aird.name, picks, aird_style=style)
        if not made:
            return
        files0 = disk_files(mdir)
        # files below the model directory that no file of the model refers to (e.g. pvmt/expected-output/apply.capella): not the model's
        unrelated = {f for f in files0 if pathlib.PurePosixPath(f).suffix in FRAG_EXT} - referenced_files(mdir, aird.name)[0]
        pre = {}
        for f in files0:
            if pathlib.PurePosixPath(f).suffix in FRAG_EXT:
                pre[f] = ET.parse(str(mdir / f), xmlenc.parser()).getroot()
        frag_stats["layouts"] += 1
        frag_stats["fragment_files"] += len(made)
        frag_stats["in_sub_directory"] += sum("/" in f for f in made)
        frag_stats["nested"] += pinfo["nested"]
        frag_stats["aird_style"][style] = frag_stats["aird_style"].get(style, 0) + 1
        frag_stats["models"][mname] = frag_stats["models"].get(mname, 0) + 1
        chk.note_case(("fragmented", mname, tuple(picks), style), nontrivial=True)
        try:
            m = capellambse.MelodyModel(str(mdir / aird.name))
            roots0 = {k_: t_.root for k_, t_ in m._loader.trees.items()}
            m.save()
        except Exception as e:  # noqa: BLE001
            chk.violation(f"frag-save:{type(e).__name__}:{mname}", f"load/save of the fragmented copy of {mname} raises {type(e).__name__}: {str(e)[:200]}", rep)
            return
        frag_stats["roots_replaced_by_first_save"] += sum(1 for k_, t_ in m._loader.trees.items() if t_.root is not roots0[k_])
        held = sorted(pathlib.PurePosixPath(*k_.parts[1:]).as_posix() for k_ in m._loader.trees if k_.parts[0] == "\0")
        del m, roots0
        probs = []
        files1 = disk_files(mdir)
        if files1 != files0:
            probs.append(("files", f"save() changed the set of files on disk: new {sorted(set(files1) - set(files0))}, missing {sorted(set(files0) - set(files1))}"))
        for h in held:
            if h not in files1:
                probs.append(("files", f"the loader holds {h!r}, which is not on disk at that path"))
        refd, rp = referenced_files(mdir, aird.name)
        probs += [("files", x) for x in rp]
        model_files = {f for f in files1 if pathlib.PurePosixPath(f).suffix in FRAG_EXT} - unrelated
        if refd != model_files or set(held) != model_files:
            probs.append(("files", f"model files on disk {sorted(model_files)}; reachable from the entry point by what the files say {sorted(refd)}; held by the loader {held}"))
        bytes1 = {}
        ph_only_files = 0
        for f in sorted(model_files):
            bytes1[f] = (mdir / f).read_bytes()
            op, oinfo = capella_file_oracle(mdir / f, f, ref_ns)
            probs += [("ns", x) for x in op]
            frag_stats["placeholders"] += oinfo["placeholders"]
            ph_only_files += bool(oinfo["placeholder_only_prefixes"])
            frag_stats["files_checked"] += 1
            if f in pre:
                try:
                    post = ET.fromstring(bytes1[f], xmlenc.parser())
                except ET.XMLSyntaxError:
                    continue
                d = xmlenc.doc_diff(pre[f], post, unordered_first=PRIO)
                if d:
                    probs.append(("content", f"{f}: an untouched load/save changed the file's information: " + "; ".join(d[:2])))
                if len(bytes1[f]) <= (30_000 if quick else 60_000) and len(frag_fcases) < (14 if quick else 60):
                    b, r, a = xmlenc.enc_doc(post)
                    frag_fcases.append(([pathlib.PurePosixPath(f).suffix, b, r, a], bytes1[f]))
        frag_stats["files_with_placeholder_only_namespace"] += ph_only_files
        frag_stats["layouts_with_placeholder_only_namespace"] += bool(ph_only_files)
        # fixpoint: load what was saved, save again
        try:
            m = capellambse.MelodyModel(str(mdir / aird.name))
            m.save()
            del m
        except Exception as e:  # noqa: BLE001
            probs.append(("fixpoint", f"load/save of the saved fragmented copy raises {type(e).__name__}: {str(e)[:200]}"))
        files2 = disk_files(mdir)
        if files2 != files1:
            probs.append(("files", f"the second save() changed the set of files: new {sorted(set(files2) - set(files1))}, missing {sorted(set(files1) - set(files2))}"))
        for f in sorted(model_files):
            new = (mdir / f).read_bytes() if (mdir / f).is_file() else b""
            if new == bytes1[f]:
                frag_stats["files_byte_fixpoint"] += 1
            else:
                off = next((i for i, (x, y) in enumerate(zip(bytes1[f], new)) if x != y), min(len(bytes1[f]), len(new)))
                probs.append(("fixpoint", f"{f}: load/save of the saved file is not byte-identical, first difference at byte {off}: "
                                          f"{bytes1[f][max(0, off - 40):off + 40]!r} -> {new[max(0, off - 40):off + 40]!r}"))
        seen_cat = set()
        for cat, what in probs:
            if cat in seen_cat:
                continue
            seen_cat.add(cat)
            chk.violation(f"frag-{cat}:{mname}", f"fragmented copy of {mname} ({len(made)} fragment files, {style}): {what[:500]}",
                          dict(rep, problems=[w for c_, w in probs if c_ == cat][:8]))


def run(chk: lib.Check):
    import capellambse
    from capellambse.loader import exs, core
    import logging
    logging.disable(logging.CRITICAL)

    import time
    T0 = time.time()
    def lap(name):
        chk.coverage.setdefault('phase_seconds', {})[name] = round(time.time() - T0, 1)
    pr = chk.prove()
    lap('prove')
    quick = chk.tier == "quick"
    rng = chk.rng
    data = lib.REPO / "tests" / "data"

    # ---------------- (1) small pure functions: model vs implementation
    strs = ["", "a", '"', "&", "<", ">", "\x7f", "\t\n\r", "a&b<c>\"d'", "]]>", " \u0085 ", "\U0001F600", "&amp;", "&#x41;", "é" * 3]
    for c in range(0, 128):
        strs.append(chr(c) if c in (9, 10, 13) or c >= 32 else "x")
    for _ in range(100 if quick else 2000):
        strs.append("".join(rng.choice(TEXT_ALPHABET + ["a", "b", " "]) for _ in range(rng.randrange(0, 12))))
    ecases = []
    for s in strs:
        ecases.append(((0, s), exs._escape(s)))
        ecases.append(((2, s), exs._escape(s, pattern=exs.P_ESCAPE_COMMENTS)))
    # raw control characters cannot come from lxml but _escape handles them: include the class members
    for c in list(range(0, 32)) + [127]:
        ecases.append(((0, "a" + chr(c) + "b"), exs._escape("a" + chr(c) + "b")))
    chk.correspond(IMP, "w_escape", ecases, tag=f"C01_escape_{RUN}")
    # escape -> XML decoding by lxml (the reader's unescape stand-in) : round trip on the implementation
    ucases = []
    for s in strs:
        esc = exs._escape(s)
        try:
            back = ET.fromstring(f'<a k="{esc}"/>'.encode("utf-8")).get("k")
        except ET.XMLSyntaxError as e:
            back = None
        if back != s:
            chk.violation(f"escape-roundtrip:{s!r}", f"_escape({s!r}) = {esc!r} is read back by lxml as {back!r}", {"string": s, "escaped": esc})
        ucases.append((esc, s))
        chk.note_case(("esc", s), nontrivial=esc != s)
    chk.correspond(IMP, "w_unescape", ucases, tag=f"C01_unescape_{RUN}")
    tcases = []
    for s in strs[:60] + ["a\nb", "\nx", "x\n", "a\n\nb\nccc", "]]>\n]]>"]:
        for pos in (0, 7, 83):
            for ml in (False, True):
                for k, pat in ((0, exs.P_ESCAPE_TEXT), (1, None)):
                    buf = io.BytesIO()
                    kw = {"pattern": pat} if pat is not None else {}
                    if pat is None:
                        import re
                        kw = {"pattern": re.compile(">")}
                    p2 = exs._serialize_text(buf, s or None, encoding="utf-8", errors="strict", pos=pos, multiline=ml, **kw)
                    tcases.append(((s or None, pos, ml, k), [buf.getvalue(), p2]))
    chk.correspond(IMP, "w_ser_text", tcases, tag=f"C01_text_{RUN}")
    prefixes = ["xmi", "xsi", "a", "B", "org.polarsys.capella.core.data.la", "libraries", "xm", "xmi2", "xs", "é", "Requirements", "CapellaRequirements", "_x", "0"]
    ncases = []
    for _ in range(40 if quick else 400):
        l = rng.sample(prefixes, rng.randrange(0, len(prefixes)))
        ncases.append((l, [k for k, _ in sorted([(p, "u") for p in l], key=exs._ns_sortkey)]))
    chk.correspond(IMP, "w_ns_sorted", ncases, tag=f"C01_nssort_{RUN}")

    lap('functions')
    # ---------------- (2) corpus: load -> save must reproduce every fragment byte for byte
    models = corpus_models(data)
    frag_total = frag_same = 0
    covered: set[pathlib.Path] = set()
    parsed: dict[pathlib.Path, ET._Element] = {}
    near = {"attrs_total": 0, "col_77_83": 0, "breaks": 0, "break_prev_78_84": 0}
    with lib.scratch("c01-") as tmp:
        for aird, kw in models:
            dst = tmp / hashlib.sha1(str(aird).encode()).hexdigest()[:8]
            shutil.copytree(aird.parent, dst / aird.parent.name)
            kw2 = dict(kw)
            if "resources" in kw2:
                lt = dst / "Library Test"
                shutil.copytree(data / "Library Test", lt)
                kw2["resources"] = {"Library Test": str(lt)}
            entry = dst / aird.parent.name / aird.name
            try:
                m = capellambse.MelodyModel(str(entry), **kw2)
                m.save()
            except Exception as e:  # noqa: BLE001
                chk.violation(f"corpus-save:{aird.relative_to(data)}", f"load/save of {aird.relative_to(data)} raises {type(e).__name__}: {e}",
                              {"model": str(aird.relative_to(data))})
                continue
            for f in sorted(aird.parent.iterdir()):
                if f.suffix not in FRAG_EXT or not f.is_file():
                    continue
                if f.suffix == ".aird" and f != aird:
                    continue
                covered.add(f)
                frag_total += 1
                orig, new = f.read_bytes(), (dst / aird.parent.name / f.name).read_bytes()
                chk.note_case(("corpus", str(f.relative_to(data))))
                if orig == new:
                    frag_same += 1
                else:
                    off = next((i for i, (x, y) in enumerate(zip(orig, new)) if x != y), min(len(orig), len(new)))
                    chk.violation(f"corpus-bytes:{f.relative_to(data)}",
                                  f"unmodified load/save changes {f.relative_to(data)} at byte {off}: {orig[max(0, off - 40):off + 40]!r} -> {new[max(0, off - 40):off + 40]!r}",
                                  {"file": str(f.relative_to(data)), "offset": off})
            del m
        # fragments that are not part of a loadable model (e.g. pvmt/expected-output/apply.capella)
        from capellambse.filehandler import local
        for f in sorted(data.rglob("*")):
            if f.suffix in FRAG_EXT and f.is_file() and f not in covered:
                frag_total += 1
                chk.note_case(("corpus", str(f.relative_to(data))))
                try:
                    mf = core.ModelFile(pathlib.PurePosixPath(f.name), local.LocalFileHandler(f.parent), ignore_uuid_dups=False)
                    buf = io.BytesIO()
                    mf.write_xml(buf)
                    new = buf.getvalue()
                except Exception as e:  # noqa: BLE001
                    new = repr(e).encode()
                if new == f.read_bytes():
                    frag_same += 1
                else:
                    chk.violation(f"corpus-bytes:{f.relative_to(data)}", f"ModelFile load/write changes {f.relative_to(data)}", {"file": str(f.relative_to(data))})
                covered.add(f)
    chk.coverage["corpus_fragments"] = frag_total
    lap('corpus_save')
    chk.coverage["corpus_fragments_byte_identical"] = frag_same

    # ---------------- (2b) the same on FRAGMENTED models in Capella's layout
    # The corpus has no fragmented model, so each layout is made from a corpus model by harness/fragmenter.py (subtrees of architecture
    # layers / packages moved to .capellafragment files in sub-directories, names with spaces / non-ASCII / '%', nested fragments,
    # .airdfragment chain).  The fragmenter's output is not in Capella's canonical formatting, so the byte baseline is the first save by
    # the tree under check: that save must pass the Capella-compatibility oracle file by file, keep the set of files, keep the
    # information of every file, and be a fixpoint of load -> save; the written bytes go to the writer model like the stock files.
    import fragmenter
    frag_stats = {"layouts": 0, "fragment_files": 0, "in_sub_directory": 0, "nested": 0, "layouts_with_placeholder_only_namespace": 0,
                  "files_with_placeholder_only_namespace": 0, "placeholders": 0, "files_checked": 0, "files_byte_fixpoint": 0,
                  "aird_style": {}, "models": {}, "roots_replaced_by_first_save": 0}
    frag_fcases: list = []
    # the oracle is calibrated on the files Capella wrote: each of them must satisfy it
    for f in sorted(covered):
        mains = sorted(f.parent.glob("*.capella"))
        ref = {p: u for p, u in ET.parse(str(mains[0])).getroot().nsmap.items() if p} if len(mains) == 1 else {}
        op, _ = capella_file_oracle(f, str(f.relative_to(data)), ref)
        if op:
            chk.broken.append(f"harness: the Capella-compatibility oracle rejects a corpus file as Capella wrote it: {op[0][:300]}")
    small_models = [(a, kw) for a, kw in models if not kw and a.stat().st_size + sum(c.stat().st_size for c in a.parent.glob("*.capella")) < 1_500_000]
    big_models = [(a, kw) for a, kw in models if not kw and (a, kw) not in small_models]
    layouts = []
    n_small, n_big = (12, 2) if quick else (90, 12)
    rng.shuffle(big_models)
    for i in range(n_small):
        layouts.append(small_models[i % len(small_models)])
    for i in range(n_big):
        pref = [m_ for m_ in big_models if m_[0].parent.name == "5_2"] if quick else []
        layouts.append((pref or big_models)[i % len(pref or big_models)])
    for li, (aird, kw) in enumerate(layouts):
        fragmented_layout(chk, capellambse, data, aird, rng.getrandbits(48), li, quick, frag_stats, frag_fcases)
    chk.correspond(IMP, "w_file", frag_fcases, tag=f"C01_fragfile_{RUN}", shard=1,
                   describe=lambda i: {"fragment": frag_fcases[i][0][0], "written": frag_fcases[i][1].decode("utf-8", "replace")[:1500]})
    frag_stats["files_to_writer_model"] = len(frag_fcases)
    chk.coverage["fragmented_layouts"] = frag_stats
    if frag_stats["layouts"] == 0 or frag_stats["in_sub_directory"] == 0 or frag_stats["layouts_with_placeholder_only_namespace"] == 0:
        chk.broken.append(f"harness: the fragmented stream did not reach its input class: {frag_stats}")
    lap('fragmented_layouts')

    # corpus statistics for the wrap argument + model correspondence on the corpus trees
    fcases, scases, acases = [], [], []
    limit_full = 30_000 if quick else 60_000
    big: list[tuple[pathlib.Path, ET._Element, int]] = []
    for f in sorted(covered):
        raw = f.read_bytes()
        root = ET.parse(str(f), xmlenc.parser()).getroot()
        parsed[f] = root
        semantic = f.suffix in core.SEMANTIC_EXTS
        ll = 80 if semantic else sys.maxsize
        if semantic:
            ev, wp = scan_tags(raw.decode("utf-8"), 80)
            for col, broke, depth, forced in ev:
                near["attrs_total"] += 1
                near["col_77_83"] += 77 <= col <= 83
                near["breaks"] += broke
                near["break_prev_78_84"] += broke and 78 <= col <= 84
            if wp:
                chk.violation(f"corpus-wrap:{f.relative_to(data)}", f"{f.relative_to(data)} (as written by Capella) breaks the wrap rule the oracle assumes: {wp[:2]}",
                              {"file": str(f.relative_to(data))})
        if len(raw) <= limit_full:
            b, r, a = xmlenc.enc_doc(root)
            mf_bytes = impl_write(exs, root, ll)
            fcases.append((([f.suffix, b, r, a]), mf_bytes))
        else:
            big.append((f, root, ll))
    chk.coverage["corpus_attrs_near_wrap_column"] = near
    chk.correspond(IMP, "w_file", fcases, tag=f"C01_file_{RUN}", shard=1,
                   describe=lambda i: {"fragment": fcases[i][0][0]})
    # large fragments: subtrees through _serialize_element (sharded), every spine element's attributes
    sub_limit = 8_000 if quick else 50_000
    budget = 100_000 if quick else 10 ** 12
    for f, root, ll in big:
        stack = [(root, 0)]
        picks = []
        while stack:
            e, d = stack.pop()
            if not isinstance(e.tag, str):
                continue
            size = len(ET.tostring(e))
            if size <= sub_limit and e is not root:
                picks.append((e, d, size))
            else:
                acases.append((e, d))
                stack.extend((c, d + 1) for c in e)
        if quick:
            rng.shuffle(picks)
        for e, d, size in picks:
            if budget < size:
                break
            budget -= size
            buf = io.BytesIO()
            try:
                p2 = exs._serialize_element(buf, e, d, encoding="utf-8", errors="strict", pos=2 * d, line_length=ll)
                outv = [buf.getvalue(), p2]
            except Exception as ex:  # noqa: BLE001
                outv = err_of(ex)
            scases.append(([xmlenc.enc_parent(e), xmlenc.enc_elem(e, e.getparent().nsmap), d, 2 * d, ll], outv))
    chk.correspond(IMP, "w_elem", scases, tag=f"C01_elem_{RUN}", shard=(40 if quick else 12))
    ucorr = []
    for e, d in (acases if not quick else acases[:120]):
        par = e.getparent()
        nsmap = {v: k for k, v in e.nsmap.items() if k}
        shallow = [*xmlenc.split_q(e.tag), xmlenc.own_decls(e, par.nsmap if par is not None else None),
                   [[*xmlenc.split_q(k), v] for k, v in e.items()], None, [], None]
        try:
            outv = [[a, v] for a, v in exs._unmapped_attrs(nsmap, e)]
        except Exception as ex:  # noqa: BLE001
            outv = err_of(ex)
        ucorr.append(([xmlenc.enc_parent(e), shallow], outv))
    chk.correspond(IMP, "w_unmapped", ucorr, tag=f"C01_unmapped_{RUN}", shard=100)
    chk.coverage["corpus_correspondence"] = {"whole_fragments": len(fcases), "subtrees": len(scases), "spine_elements": len(ucorr)}

    lap('corpus_correspondence')
    # ---------------- (3) generated Capella-shaped trees
    pools = {"roots": [], "elems": []}
    for f, root in parsed.items():
        if f.suffix in core.SEMANTIC_EXTS and (not quick or len(f.read_bytes()) < 400_000):
            pools["roots"].append(root)
            for el in root.iter():
                if isinstance(el.tag, str) and el is not root and len(el.keys()) >= 2 and len(ET.tostring(el)) < 3000:
                    pools["elems"].append(el)
    if len(pools["elems"]) > 1500:
        pools["elems"] = rng.sample(pools["elems"], 1500)
    gens = gen_cases(chk, pools, 80 if quick else 1500)
    dcases = []
    rcases = []
    rdcases = []
    hist: dict[str, int] = {}
    depth_cols: set[tuple[int, int]] = set()
    kinds: dict[str, int] = {}
    corr_budget = 160 if quick else 2500
    for kind, feats, build in gens:
        root, ll = build(set())
        kinds[kind] = kinds.get(kind, 0) + 1
        b1, probs = check_doc(exs, root, ll)
        chk.note_case((kind, hashlib.sha1(b1 or b"").hexdigest()), nontrivial=True)
        if b1 is not None and ll == 80:
            for col, broke, depth, forced in scan_tags(b1.decode("utf-8"), None)[0]:
                if 70 <= col <= 90:
                    hist[str(col)] = hist.get(str(col), 0) + 1
                    depth_cols.add((depth, col))
        if probs:
            present = sorted(blank_or_cdata(root))
            key = None
            import itertools
            for n in range(1, len(present) + 1):
                for sub in itertools.combinations(present, n):
                    r2, ll2 = build(set())
                    if not check_doc(exs, neutralise(r2, set(sub)), ll2)[1]:
                        key = [KNOWN[ft] for ft in sub]
                        break
                if key:
                    break
            if key:
                for k_ in key:
                    chk.violation(k_, f"{kind} tree: {probs[0][:300]}",
                                  {"kind": kind, "line_length": ll, "written": (b1 or b"").decode("utf-8", "replace")[:4000], "problems": probs})
                key = "known"
            if key is None:
                key = f"gen:{kind}:{hashlib.sha1(b1 or b'').hexdigest()[:12]}"
            if key != "known":
                chk.violation(key, f"{kind} tree: {probs[0][:300]}",
                              {"kind": kind, "line_length": ll, "written": (b1 or b"").decode("utf-8", "replace")[:4000], "problems": probs})
        # model correspondence on the same tree
        if b1 is not None and (kind != "wrap" or corr_budget > 0):
            if kind == "wrap":
                corr_budget -= 1
            b, r, a = xmlenc.enc_doc(root)
            dcases.append(([b, r, a, ll], b1))
        # the reference reader vs lxml on what was written (attribute-only documents)
        if b1 is not None and kind in ("wrap", "root") and len(rcases) < (150 if quick else 1500) and all(ord(c) < 128 for c in b1.decode("utf-8")):
            try:
                t2 = ET.fromstring(b1, xmlenc.parser())
            except ET.XMLSyntaxError:
                t2 = None
            if t2 is not None and not any(el.text for el in t2.iter()):
                body = b1.decode("utf-8").split("?>\n", 1)[1]
                rcases.append((body, [lxml_view(t2), "\n"]))
        # the stage B reader (text, CDATA, comments around the root) vs lxml on what was written
        if b1 is not None and len(rdcases) < (150 if quick else 1500) and all(ord(c) < 128 for c in b1.decode("utf-8")):
            try:
                t2 = ET.fromstring(b1, xmlenc.parser())
            except ET.XMLSyntaxError:
                t2 = None
            if t2 is not None and all(isinstance(el.tag, str) for el in t2.iter()):
                body = b1.decode("utf-8").split("?>\n", 1)[1]
                rdcases.append((body, [[c.text or "" for c in reversed(list(t2.itersiblings(preceding=True)))], lxml_view_t(t2),
                                       [c.text or "" for c in t2.itersiblings()]]))
    lap('generated_oracles')
    chk.correspond(IMP, "w_doc", dcases, tag=f"C01_doc_{RUN}", shard=40,
                   describe=lambda i: {"written": dcases[i][1].decode("utf-8", "replace")[:1500] if isinstance(dcases[i][1], bytes) else repr(dcases[i][1])})
    chk.correspond(IMP, "w_read_sem", rcases, tag=f"C01_read_{RUN}", shard=40)
    chk.correspond(IMP, "w_read_doc", rdcases, tag=f"C01_readdoc_{RUN}", shard=40)
    lap('generated_correspondence')
    chk.coverage["generated_trees"] = kinds
    chk.coverage["columns_before_attribute_70_90"] = dict(sorted(hist.items(), key=lambda kv: int(kv[0])))
    chk.coverage["depth_x_column_pairs_70_90"] = len(depth_cols)
    chk.coverage["depths_reaching_wrap_window"] = sorted({d for d, _ in depth_cols})
    chk.samples.append({"generated": dcases[3][1].decode("utf-8", "replace")[:600] if len(dcases) > 3 and isinstance(dcases[3][1], bytes) else None})
    chk.coverage["rule"] = (
        "corpus: every fragment under tests/data loaded with MelodyModel and saved untouched, bytes compared with the original; "
        "model vs implementation bytes on whole small fragments (ModelFile.write_xml), on subtrees of large fragments "
        "(_serialize_element) and on every spine element (_unmapped_attrs); generated trees: wrap sweep (depth 0..14 and 22..46 x value length "
        "0..95), root attribute shuffles / namespace subsets, every character of %r at start/middle/end/only in attribute, body and "
        "language text, random mixtures with comments around the root; oracles: parse(write(t)) succeeds, write(parse(write(t))) == "
        "write(t), parsed tree == t (raw lxml compare), independent start-tag scanner for the wrap rule. Fragmented layouts "
        "(coverage.fragmented_layouts): corpus models split by harness/fragmenter.py into Capella's layout (architecture layers / packages "
        "-- one of them the only user of its namespace, so the parent file keeps that namespace for a placeholder alone -- moved to "
        ".capellafragment files in sub-directories, names with spaces / non-ASCII / '%%', nested fragments, .airdfragment chain or direct "
        "semanticResources); load + save by the tree under check, then on EVERY written file a raw-lxml Capella-compatibility oracle "
        "(calibrated on all corpus files): namespaces declared on the root only, every prefix of an element name / attribute name / "
        "xsi:type value incl. placeholders declared, nothing else declared, every URI = the one Capella's main file binds (versions agree), "
        "80-column rule; files on disk = files before = files reachable from the .aird by what the files say = files the loader holds (no "
        "stray, none missing); information of each file unchanged; load + save of the saved copy byte-identical; written bytes = writer "
        "model on the parsed tree" % (TEXT_ALPHABET,))
    chk.assumptions += [
        "lxml's parser is represented by the reference reader of Model/XmlRead.v (sampled against lxml here); UTF-8 decoding is outside the reader theorem",
        "os.linesep is LF on the platform the check runs on",
        "Capella compatibility (80 columns, attribute order) has no formal specification: it is decided by the byte comparison with the 31 corpus fragments",
        "stage A only: the write/read round-trip theorem covers attribute-only trees; text, tails and comments are covered by the differential checks",
        "fragmented models: the file shape produced by harness/fragmenter.py is what Capella writes (no fragmented model in the corpus, no Capella offline); its formatting is not Capella's, so the byte baseline for them is the first save of the tree under check (fixpoint + independent per-file oracle), not Capella's bytes. The type prefix inside a cross-fragment link value ('prefix:Type path#id') is not counted as a use of the namespace",
    ]


if __name__ == "__main__":
    lib.main("C01", run)
