"""Shared by c01.py / c02.py: lxml tree -> the `val` encoding of coq/Model/XmlTree.v, and an
independent structural comparison of lxml trees (raw lxml only — no capellambse code)."""
from __future__ import annotations

import lxml.etree as ET


def split_q(name: str) -> tuple[str, str]:
    if name.startswith("{"):
        uri, _, local = name[1:].partition("}")
        return uri, local
    return "", name


def own_decls(e, parent_map: dict | None) -> list[list[str]]:
    """namespace declarations carried by `e` itself, in element.nsmap order
    (lxml builds nsmap from the element's own nsDef first, then the ancestors')."""
    out = []
    pm = parent_map or {}
    for p, u in e.nsmap.items():
        if p in pm and pm[p] == u:
            continue
        out.append([p or "", u])
    return out


def enc_elem(e, parent_map: dict | None = None) -> list:
    if not isinstance(e.tag, str):
        raise ValueError("comment / processing instruction inside the tree is outside the model")
    uri, local = split_q(e.tag)
    nsmap = e.nsmap
    return [uri, local, own_decls(e, parent_map),
            [[*split_q(k), v] for k, v in e.items()],
            e.text, [enc_elem(c, nsmap) for c in e], e.tail]


def enc_parent(e) -> list | None:
    p = e.getparent()
    if p is None:
        return None
    return [[k or "", v] for k, v in p.nsmap.items()]


def enc_comment(c) -> list:
    return [c.text or "", c.tail]


def enc_doc(root) -> tuple[list, list, list]:
    before = [enc_comment(c) for c in reversed(list(root.itersiblings(preceding=True)))]
    after = [enc_comment(c) for c in root.itersiblings()]
    return before, enc_elem(root, None), after


# ----------------------------------------------------------------- independent tree comparison
def norm_text(s):
    return s if s else None          # '' and None carry the same information


def tree_diff(a, b, path="/", *, ordered_attrs=True, unordered_first=(), out=None, limit=5):
    """Differences between two lxml elements: tag, attributes (ordered), text, tail,
    namespaces in scope that are used, child order.  Returns a list of strings."""
    out = [] if out is None else out
    if len(out) >= limit:
        return out
    here = f"{path}{a.tag if isinstance(a.tag, str) else '<!---->'}"
    if isinstance(a.tag, str) != isinstance(b.tag, str) or (isinstance(a.tag, str) and a.tag != b.tag):
        out.append(f"{here}: tag {a.tag!r} != {b.tag!r}")
        return out
    ia, ib = list(a.items()), list(b.items())
    oa = [kv for kv in ia if kv[0] not in unordered_first]
    ob = [kv for kv in ib if kv[0] not in unordered_first]
    if (oa != ob or dict(ia) != dict(ib)) if ordered_attrs else (dict(ia) != dict(ib)):
        if dict(ia) != dict(ib):
            ka = {k for k, v in ia if dict(ib).get(k) != v} | {k for k, v in ib if dict(ia).get(k) != v}
            out.append(f"{here}: attributes differ on {sorted(ka)[:3]}: {[dict(ia).get(k) for k in sorted(ka)[:3]]!r} != {[dict(ib).get(k) for k in sorted(ka)[:3]]!r}")
        else:
            out.append(f"{here}: attribute order {[k for k, _ in oa]} != {[k for k, _ in ob]}")
    if norm_text(a.text) != norm_text(b.text):
        out.append(f"{here}: text {a.text!r} != {b.text!r}")
    if norm_text(a.tail) != norm_text(b.tail):
        out.append(f"{here}: tail {a.tail!r} != {b.tail!r}")
    if isinstance(a.tag, str):
        # every prefix used by an xsi:type / xmi:type value must resolve to the same URI
        for k, v in ia:
            if k.endswith("}type") and ":" in v:
                p = v.split(":", 1)[0]
                if a.nsmap.get(p) != b.nsmap.get(p):
                    out.append(f"{here}: prefix {p!r} bound to {a.nsmap.get(p)!r} != {b.nsmap.get(p)!r}")
    ca, cb = list(a), list(b)
    if len(ca) != len(cb):
        out.append(f"{here}: {len(ca)} children != {len(cb)}")
        return out
    for i, (x, y) in enumerate(zip(ca, cb)):
        tree_diff(x, y, f"{here}[{i}]/", ordered_attrs=ordered_attrs, unordered_first=unordered_first, out=out, limit=limit)
        if len(out) >= limit:
            break
    return out


def doc_diff(ra, rb, **kw):
    """Compare two roots including the comments around them."""
    out = []
    sa = [c.text for c in reversed(list(ra.itersiblings(preceding=True)))], [c.text for c in ra.itersiblings()]
    sb = [c.text for c in reversed(list(rb.itersiblings(preceding=True)))], [c.text for c in rb.itersiblings()]
    if sa != sb:
        out.append(f"comments around the root {sa!r} != {sb!r}")
    return tree_diff(ra, rb, out=out, **kw)


def parser():
    return ET.XMLParser(remove_blank_text=True, huge_tree=True)
