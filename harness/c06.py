"""C06 — A fragmented model behaves exactly like its single-file equivalent."""
from __future__ import annotations

import collections
import pathlib
import shutil
import sys

sys.path.insert(0, str(pathlib.Path(__file__).resolve().parent))
import lib
import corpus
import graph
import fragmenter
from lib import Err, err_of

FRAG_DIRS = ["fragments", "", "deep/er", "a b", "f%g", "ü"]


def sem_elements(loader):
    for p, tree in loader.trees.items():
        if p.suffix in graph.SEMANTIC:
            for e in tree.root.iter():
                if isinstance(e.tag, str) and e.get("id") and e.get("href") is None:
                    yield e


def digest(model, ids: list[str], rel_sample: list[str], anchors: list[str], types: list[str]) -> dict:
    """API-level observations, keyed by uuid, that must not depend on the fragment layout"""
    from capellambse.model import _obj
    loader = model._loader
    out: dict = {}
    by_id = {e.get("id"): e for e in sem_elements(loader)}
    out["ids"] = sorted(by_id)
    for u in ids:
        e = by_id.get(u)
        if e is None:
            out[("present", u)] = False
            continue
        try:
            out[("ancestors", u)] = [a.get("id") for a in loader.iterancestors(e)]
        except Exception as ex:  # noqa: BLE001
            out[("ancestors", u)] = "EXC " + type(ex).__name__
        try:
            out[("children", u)] = [c.get("id") for c in loader.iterchildren_xt(e) if c.get("id")]
        except Exception as ex:  # noqa: BLE001
            out[("children", u)] = "EXC " + type(ex).__name__
        try:
            out[("ndesc", u)] = sum(1 for d in loader.iterdescendants(e) if d.get("id"))
        except Exception as ex:  # noqa: BLE001
            out[("ndesc", u)] = "EXC " + type(ex).__name__
        try:
            from capellambse import helpers
            out[("xtype", u)] = helpers.xtype_of(e)
        except Exception as ex:  # noqa: BLE001
            out[("xtype", u)] = "EXC " + type(ex).__name__
    for u in rel_sample:
        try:
            obj = model.by_uuid(u)
        except Exception as ex:  # noqa: BLE001
            out[("obj", u)] = "EXC " + type(ex).__name__
            continue
        try:
            out[("refs", u)] = sorted((getattr(r_, "uuid", None) or "", a_) for r_, a_, _i in model.find_references(obj))
        except Exception as ex:  # noqa: BLE001
            out[("refs", u)] = "EXC " + type(ex).__name__
        try:
            p = obj.parent
            out[("parent", u)] = getattr(p, "uuid", None)
        except Exception as ex:  # noqa: BLE001
            out[("parent", u)] = "EXC " + type(ex).__name__
        try:
            out[("layer", u)] = obj.layer.uuid
        except AttributeError:
            out[("layer", u)] = None
        except Exception as ex:  # noqa: BLE001
            out[("layer", u)] = "EXC " + type(ex).__name__
        for name in dir(type(obj)):
            if name.startswith("_") or name in ("parent", "layer", "pvmt", "validation", "diagrams", "visible_on_diagrams",
                                                 "property_value_pkgs", "filtering_criteria"):
                continue
            acc = getattr(type(obj), name, None)
            from capellambse.model import _descriptors as D
            if not isinstance(acc, D.Accessor) or isinstance(acc, D.DeprecatedAccessor):
                continue
            try:
                v = getattr(obj, name)
            except Exception as ex:  # noqa: BLE001
                out[("rel", u, name)] = "EXC " + type(ex).__name__
                continue
            if isinstance(v, _obj.ElementList):
                try:
                    ids_ = [getattr(x, "uuid", None) for x in v]
                    # containment / link / attribute relations are ordered by the XML; relations computed by a model-wide
                    # search (back-references, requirement relations) have no order of their own and come in index order,
                    # which follows the file layout: compared as multisets
                    ordered = isinstance(acc, (D.DirectProxyAccessor, D.LinkAccessor, D.AttrProxyAccessor, D.RoleTagAccessor,
                                               D.TypecastAccessor, D.DeepProxyAccessor))
                    out[("rel", u, name)] = ids_ if ordered else sorted(map(str, ids_))
                except Exception as ex:  # noqa: BLE001
                    out[("rel", u, name)] = "EXC " + type(ex).__name__
            elif isinstance(v, _obj.ModelElement):
                out[("rel", u, name)] = v.uuid
    for a in anchors:
        try:
            anchor = model.by_uuid(a)
        except Exception as ex:  # noqa: BLE001
            out[("anchor", a)] = "EXC " + type(ex).__name__
            continue
        for xt in types:
            try:
                out[("below", a, xt)] = sorted(x.uuid for x in model.search(xt, below=anchor))
            except Exception as ex:  # noqa: BLE001
                out[("below", a, xt)] = "EXC " + type(ex).__name__
    for xt in types:
        try:
            found = list(model.search(xt))
            out[("search", xt)] = sorted(x.uuid for x in found)
            # what a search hands out is the live element: its parent and its children are those of the object looked up by id
            nav = []
            for x in sorted(found, key=lambda x: x.uuid)[:40]:
                par = x._element.getparent()
                try:
                    anc = next(iter(loader.iterancestors(x._element)), None)
                except Exception as ex:  # noqa: BLE001
                    anc = "EXC " + type(ex).__name__
                nav.append([x.uuid, anc.get("id") if hasattr(anc, "get") else anc, sum(1 for c in loader.iterchildren_xt(x._element) if c.get("id"))])
            out[("search-nav", xt)] = nav
        except Exception as ex:  # noqa: BLE001
            out[("search", xt)] = "EXC " + type(ex).__name__
    return out


def run(chk: lib.Check):
    import capellambse
    pr = chk.prove()
    quick = chk.tier == "quick"
    rng = chk.rng
    specs = [s for s in corpus.model_specs(chk.tier) if "resources" not in s]
    n_layouts = 8 if quick else 40
    stats = collections.Counter()
    qcases = []
    ccases = []
    for spec0 in specs[: (1 if quick else 4)]:
        mono = corpus.load(spec0)
        src = pathlib.Path(spec0["path"]).parent
        capella = next(p.name for p in src.glob("*.capella"))
        aird = pathlib.Path(spec0["path"]).name
        elems = list(sem_elements(mono._loader))
        # candidates: elements with xsi:type, a parent element and at least one child — grouped by type so every
        # fragmentable kind is tried
        # Capella does not offer fragmentation for link elements (allocations, involvements, realizations, ...): the
        # types any LinkAccessor stores its references in are not candidates
        from capellambse.model import _descriptors as D, _xtype
        link_types: set[str] = set()
        for cls in _xtype.XTYPE_HANDLERS[None].values():
            for an in dir(cls):
                a = getattr(cls, an, None)
                if isinstance(a, D.LinkAccessor):
                    link_types |= set(a.xtypes)
        by_type = collections.defaultdict(list)
        for e in elems:
            if e.getparent() is not None and e.get(graph.XSI_TYPE) and len(e) and e.get(graph.XSI_TYPE) not in link_types:
                by_type[e.get(graph.XSI_TYPE)].append(e)
        kinds = sorted(by_type)
        layers = [e for e in elems if (e.get(graph.XSI_TYPE) or "").endswith("Architecture") or (e.get(graph.XSI_TYPE) or "").endswith(":SystemEngineering")]
        layer_children = [c for l_ in layers for c in l_ if isinstance(c.tag, str) and c.get("id") and c.get(graph.XSI_TYPE) and len(c)
                          and c.get(graph.XSI_TYPE) not in link_types]
        rng.shuffle(layer_children)
        type_count = collections.Counter(e.get(graph.XSI_TYPE) for e in elems if e.get(graph.XSI_TYPE))
        movable_holder_roots = [e for e in elems if e.getparent() is not None and e.get(graph.XSI_TYPE) and len(e) and e.get(graph.XSI_TYPE) not in link_types
                                and e.getparent().get("id") and e.getparent().getparent() is not None and e.getparent().getparent().get("id")
                                and type_count[e.getparent().getparent().get(graph.XSI_TYPE)] >= 2
                                and not (e.getparent().get(graph.XSI_TYPE) or "").endswith("Architecture")]
        rng.shuffle(movable_holder_roots)
        ids_all = [e.get("id") for e in elems]
        for li in range(n_layouts):
            k = rng.choice([1, 2, 3])
            picks = []
            chosen = []
            for _ in range(k):
                t = kinds[(li * 3 + len(picks)) % len(kinds)] if rng.random() < 0.7 else rng.choice(kinds)
                e = rng.choice(by_type[t])
                if not chosen and li % 4 == 2 and movable_holder_roots:
                    # a root whose holder (parent) can be moved to another object of the grandparent's class
                    e = movable_holder_roots[(li // 4) % len(movable_holder_roots)]
                elif not chosen and li % 2 == 1 and layer_children:
                    # the packages directly below an architecture layer: the layer's own relations look INTO them (root_function,
                    # root_component, all_*, actor_exchanges, ...)
                    e = layer_children[(li // 2) % len(layer_children)]
                if any(e is c for c in chosen):
                    continue
                chosen.append(e)
            # nested picks: outer first
            if rng.random() < 0.5 and chosen:
                inner = [d for d in chosen[0].iterdescendants() if isinstance(d.tag, str) and d.get("id") and d.get(graph.XSI_TYPE) and len(d)
                         and d.get(graph.XSI_TYPE) not in link_types]
                if inner:
                    extra = rng.choice(inner)
                    if not any(extra is c for c in chosen):
                        chosen.append(extra)
            chosen.sort(key=lambda e: len(list(e.iterancestors())))
            # every third layout: the fragment files share ONE base name and differ in their folder only
            same_base = li % 3 == 2 and len(chosen) >= 2
            dirs_ = list(FRAG_DIRS)
            rng.shuffle(dirs_)
            for i, e in enumerate(chosen):
                d = dirs_[i % len(dirs_)] if same_base else rng.choice(FRAG_DIRS)
                base = "Structure" if same_base else f"F{i} {e.get(graph.XSI_TYPE).split(':')[-1]}"
                picks.append((e.get("id"), (d + "/" if d else "") + f"{base}.capellafragment"))
            if same_base:
                stats["layouts-with-one-base-name-in-several-folders"] += 1
            with lib.scratch("c06-") as tmp:
                shutil.copytree(src, tmp / "m", ignore=shutil.ignore_patterns("*.license"))
                aird_style = "chain" if li % 2 else "direct"
                made = fragmenter.fragment_model(tmp / "m", capella, aird, picks, aird_style=aird_style)
                stats[f"aird-style:{aird_style}"] += 1
                if not made:
                    continue
                stats["layouts"] += 1
                stats[f"fragments:{len(made)}"] += 1
                try:
                    frag = capellambse.MelodyModel(str(tmp / "m" / aird))
                except Exception as ex:  # noqa: BLE001
                    chk.violation(f"load-fails:{type(ex).__name__}", f"fragmented layout {picks} does not load: {ex!r}", {"model": spec0["name"], "picks": picks})
                    continue
                # what to observe: the fragment roots, their parents/children/descendants, plus a random sample
                focus = set()
                for e in chosen:
                    focus.add(e.get("id"))
                    if e.getparent() is not None and e.getparent().get("id"):
                        focus.add(e.getparent().get("id"))
                    focus.update(c.get("id") for c in list(e.iter())[:15] if isinstance(c.tag, str) and c.get("id"))
                sample = sorted(focus | set(rng.sample(ids_all, min(60 if quick else 250, len(ids_all)))))
                rel_sample = sorted(focus)[:25] + rng.sample(ids_all, min(15 if quick else 60, len(ids_all))) + [l_.get("id") for l_ in layers if l_.get("id")]
                rel_sample = list(dict.fromkeys(rel_sample))
                anchors = [e.get("id") for e in chosen][:2] + [a.get("id") for a in chosen[0].iterancestors() if a.get("id")][:2]
                types = sorted({e.get(graph.XSI_TYPE) for e in chosen} | {d.get(graph.XSI_TYPE) for e in chosen for d in e.iterdescendants()
                                                                      if isinstance(d.tag, str) and d.get(graph.XSI_TYPE)})[:6]
                dm = digest(mono, sample, rel_sample, anchors, types)
                df = digest(frag, sample, rel_sample, anchors, types)
                for key in dm:
                    chk.note_case((spec0["name"], li, key), nontrivial=True)
                    if dm[key] != df.get(key):
                        what = key[0] if isinstance(key, tuple) else key
                        detail = key[2] if isinstance(key, tuple) and what == "rel" else ""
                        kind = "fragment-root" if isinstance(key, tuple) and len(key) > 1 and key[1] in {e.get("id") for e in chosen} else "other"
                        chk.violation(f"{what}{(':' + detail) if detail else ''}:{kind}",
                                      f"{key}: single file gives {str(dm[key])[:160]}, fragmented layout gives {str(df.get(key))[:160]}",
                                      {"model": spec0["name"], "picks": picks, "observation": list(key) if isinstance(key, tuple) else key,
                                       "mono": dm[key], "fragmented": df.get(key)})
                        stats[f"diff:{what}"] += 1
                # correspondence: the model's ancestors over the real forest (indexes rebuilt inside Coq)
                A = graph.Abstraction()
                frs = []
                for p, tree in frag._loader.trees.items():
                    if p.suffix in graph.SEMANTIC:
                        frs.append([len(frs), graph.kind_of(p), [graph.node_val(n) for n in A.nodes(tree)]])
                by_id = {e.get("id"): e for e in sem_elements(frag._loader)}
                hs, exp = [], []
                for u in sorted(focus)[:30]:
                    if u in by_id:
                        hs.append(A.H(by_id[u]))
                        try:
                            exp.append([A.H(a) for a in frag._loader.iterancestors(by_id[u])])
                        except Exception as ex:  # noqa: BLE001
                            exp.append(err_of(ex))
                qcases.append(([False, frs, [], [], hs], [[], [], exp]))
                # ... and its children (placeholders followed through the id index)
                cexp = []
                for u in sorted(focus)[:30]:
                    if u in by_id:
                        try:
                            cexp.append([A.H(c) for c in frag._loader.iterchildren_xt(by_id[u]) if isinstance(c.tag, str)])
                        except Exception as ex:  # noqa: BLE001
                            cexp.append(err_of(ex))
                ccases.append(([False, frs, hs], cexp))
                # a UUID in use in ANOTHER fragment must be refused for a new object, exactly as in the single-file model
                try:
                    import histories
                    hr = histories.HistoryRunner(frag, rng)
                    inner = frag.by_uuid(chosen[-1].get("id"))
                    host = None
                    for cand in [inner] + [frag.by_uuid(c.get("id")) for c in list(chosen[-1])[:10] if c.get("id")]:
                        if hr.rels(cand, ("direct",)):
                            host = cand
                            break
                    outside = next((e.get("id") for e in sem_elements(frag._loader)
                                    if frag._loader.find_fragment(e) != frag._loader.find_fragment(inner._element)), None)
                    if host is not None and outside:
                        relname, racc = hr.rels(host, ("direct",))[0]
                        hints = sorted(getattr(racc, "xtypes", []) or [])
                        n_before = sum(1 for _ in sem_elements(frag._loader))
                        try:
                            lst_ = getattr(host, relname)
                            lst_.create(hints[0], name="clash", uuid=outside) if hints else lst_.create(name="clash", uuid=outside)
                            res_ = "accepted"
                        except ValueError:
                            res_ = "ValueError"
                        except Exception as ex:  # noqa: BLE001
                            res_ = type(ex).__name__
                        stats[f"cross-fragment-uuid-clash:{res_}"] += 1
                        n_after = sum(1 for _ in sem_elements(frag._loader))
                        owners_ = sum(1 for e in sem_elements(frag._loader) if e.get("id") == outside)
                        if res_ == "accepted" or n_after != n_before or owners_ != 1:
                            chk.violation(f"cross-fragment-uuid-clash:{res_}", f"create(uuid=<id used in another fragment>) in a fragment: {res_}; elements {n_before}->{n_after}; "
                                          f"the id now occurs {owners_}x", {"model": spec0["name"], "picks": picks, "uuid": outside, "host": host.uuid, "relation": relname})
                except Exception as ex:  # noqa: BLE001
                    stats[f"clash-probe-skipped:{type(ex).__name__}"] += 1
                # the same structural edits (delete a leaf inside the innermost fragment, create a child of its root with a given uuid)
                # on a fresh single-file model and on the fragmented one: same outcomes, same observations afterwards
                try:
                    inner_el = chosen[-1]
                    leaf_id = next((d.get("id") for d in inner_el.iterdescendants() if isinstance(d.tag, str) and d.get("id") and len(d) == 0
                                    and d.get(graph.XSI_TYPE) and d.get(graph.XSI_TYPE) not in link_types), None)
                    new_uuid = str(__import__("uuid").UUID(int=rng.getrandbits(128), version=4))
                    # a move ACROSS the fragment boundary: a contained child of the innermost fragment's root goes to another object of the
                    # root's class that lives outside the fragment (same relation)
                    inner_anc = {id(a) for a in inner_el.iterancestors()}
                    inner_desc = {id(d) for d in inner_el.iter()}
                    move_id = dest_id = None
                    by_xt = collections.defaultdict(list)
                    for e in elems:
                        if e.get("id") and e.get(graph.XSI_TYPE) and id(e) not in inner_anc and id(e) not in inner_desc:
                            by_xt[e.get(graph.XSI_TYPE)].append(e)
                    for x_el in inner_el.iterdescendants():
                        if not (isinstance(x_el.tag, str) and x_el.get("id") and x_el.get(graph.XSI_TYPE)) or x_el.get(graph.XSI_TYPE) in link_types \
                                or x_el.get("id") == leaf_id or (leaf_id and any(d.get("id") == leaf_id for d in x_el.iter())):
                            continue
                        par_el = x_el.getparent()
                        dests = by_xt.get(par_el.get(graph.XSI_TYPE) or "", [])
                        if par_el.get("id") and dests:
                            move_id, dest_id = x_el.get("id"), dests[li % len(dests)].get("id")
                            break
                    # ... or INTO the fragment: an outside object of the same type as some contained child inside joins that child's list
                    in_moves = []
                    if not (move_id and dest_id):
                        for c_el in inner_el.iterdescendants():
                            if not (isinstance(c_el.tag, str) and c_el.get("id") and c_el.get(graph.XSI_TYPE)) or c_el.get(graph.XSI_TYPE) in link_types \
                                    or c_el.get("id") == leaf_id:
                                continue
                            h_el = c_el.getparent()
                            outs = [y for y in by_xt.get(c_el.get(graph.XSI_TYPE), []) if y.getparent() is not None and y.getparent().get("id")]
                            if h_el.get("id") and outs:
                                in_moves.append((c_el.get("id"), h_el.get("id"), outs[li % len(outs)].get("id")))
                            if len(in_moves) >= 12:
                                break
                    # ... and a move of the element that HOLDS the placeholder of the outermost fragment (the fragment content moves along in
                    # the glued tree): its parent goes to another object of the grandparent's class
                    holder_move = None
                    hold_el = chosen[0].getparent()
                    for _lvl in range(4):       # the direct holder or one of its next ancestors, whichever can be moved somewhere
                        if hold_el is None or not hold_el.get("id") or hold_el.getparent() is None or not hold_el.getparent().get("id"):
                            break
                        gp_el = hold_el.getparent()
                        hold_desc = {id(d) for d in hold_el.iter()}
                        dests_ = [e for e in elems if e.get(graph.XSI_TYPE) == gp_el.get(graph.XSI_TYPE) and e.get("id") and e is not gp_el
                                  and id(e) not in hold_desc and not any(id(a) in hold_desc for a in e.iterancestors())]
                        if dests_ and not (hold_el.get(graph.XSI_TYPE) or "").endswith("Architecture"):
                            holder_move = (hold_el.get("id"), dests_[li % len(dests_)].get("id"))
                            break
                        hold_el = gp_el
                    mono2 = corpus.load(spec0)

                    def structural_edits(m):
                        import histories as H_
                        hr_ = H_.HistoryRunner(m, rng)
                        res = []
                        if leaf_id:
                            try:
                                leaf = m.by_uuid(leaf_id)
                                cont = hr_.container_of(leaf)
                                if cont is None:
                                    res.append("delete:no-container")
                                else:
                                    getattr(cont[0], cont[1]).remove(leaf)
                                    res.append("deleted")
                            except Exception as ex:  # noqa: BLE001
                                res.append("delete:" + type(ex).__name__)
                        if move_id and dest_id:
                            try:
                                x_ = m.by_uuid(move_id)
                                cont = hr_.container_of(x_)
                                if cont is None:
                                    res.append("move:no-container")
                                else:
                                    getattr(m.by_uuid(dest_id), cont[1]).append(x_)
                                    res.append(f"moved:{cont[1]}")
                            except Exception as ex:  # noqa: BLE001
                                res.append("move:" + type(ex).__name__)
                        if holder_move:
                            try:
                                x_ = m.by_uuid(holder_move[0])
                                cont = hr_.container_of(x_)
                                if cont is None:
                                    res.append("move-holder:no-container")
                                else:
                                    getattr(m.by_uuid(holder_move[1]), cont[1]).append(x_)
                                    res.append(f"moved-holder:{cont[1]}")
                            except Exception as ex:  # noqa: BLE001
                                res.append("move-holder:" + type(ex).__name__)
                        for k_, in_move in enumerate(in_moves):
                            try:
                                cont = hr_.container_of(m.by_uuid(in_move[0]))
                            except Exception:  # noqa: BLE001
                                cont = None
                            if cont is None:
                                continue
                            try:
                                getattr(m.by_uuid(in_move[1]), cont[1]).append(m.by_uuid(in_move[2]))
                                res.append(f"moved-in#{k_}:{cont[1]}")
                            except Exception as ex:  # noqa: BLE001
                                res.append(f"move-in#{k_}:" + type(ex).__name__)
                            break
                        try:
                            host_ = m.by_uuid(inner_el.get("id"))
                            rels_ = sorted(hr_.rels(host_, ("direct",)), key=lambda na: na[0])
                            done_ = "create:no-relation"
                            for relname_, racc_ in rels_:
                                hints_ = sorted(getattr(racc_, "xtypes", []) or [])
                                try:
                                    l_ = getattr(host_, relname_)
                                    l_.create(hints_[0], name="c06 new", uuid=new_uuid) if hints_ else l_.create(name="c06 new", uuid=new_uuid)
                                    done_ = f"created:{relname_}"
                                    break
                                except Exception as ex:  # noqa: BLE001
                                    done_ = f"create:{relname_}:{type(ex).__name__}"
                            res.append(done_)
                        except Exception as ex:  # noqa: BLE001
                            res.append("create:" + type(ex).__name__)
                        return res

                    rm_, rf_ = structural_edits(mono2), structural_edits(frag)
                    stats[f"structural-edits:{'+'.join(x.split(':')[0] for x in rf_)}"] += 1
                    stats["structural-edit-outcome:" + " ".join(rf_)] += 1
                    if rm_ != rf_:
                        chk.violation("edit-outcome-differs", f"the same edits give {rm_} on the single-file model and {rf_} on the fragmented layout",
                                      {"model": spec0["name"], "picks": picks, "leaf": leaf_id, "new_uuid": new_uuid, "mono": rm_, "fragmented": rf_})
                    else:
                        s2 = [u_ for u_ in sample if u_ != leaf_id] + [new_uuid] + [u_ for u_ in (move_id, dest_id, *(x_ for t_ in in_moves[:3] for x_ in t_)) if u_]
                        r2 = [u_ for u_ in rel_sample if u_ != leaf_id] + [new_uuid] + [u_ for u_ in (move_id, dest_id, *(x_ for t_ in in_moves[:3] for x_ in t_)) if u_]
                        dm2, dfe = digest(mono2, s2, r2, anchors, types), digest(frag, s2, r2, anchors, types)
                        for key in dm2:
                            if dm2[key] != dfe.get(key):
                                what = key[0] if isinstance(key, tuple) else key
                                chk.violation(f"after-edit:{what}", f"{key} after {rf_}: single file gives {str(dm2[key])[:160]}, fragmented layout gives {str(dfe.get(key))[:160]}",
                                              {"model": spec0["name"], "picks": picks, "observation": list(key) if isinstance(key, tuple) else key, "edits": rf_,
                                               "mono": dm2[key], "fragmented": dfe.get(key)})
                                break
                        sample, rel_sample, dm, df = s2, r2, dm2, dfe
                    del mono2
                except Exception as ex:  # noqa: BLE001
                    chk.violation(f"structural-edit-harness:{type(ex).__name__}", f"structural edits on layout {picks} failed in the harness: {ex!r}", {"picks": picks})
                # edits + save on the fragmented layout: each element is written to the file that owns it
                try:
                    tgt = frag.by_uuid(chosen[-1].get("id"))
                    tgt.description = "renamed in fragment"
                    par = frag.by_uuid(chosen[0].getparent().get("id")) if chosen[0].getparent().get("id") else None
                    if par is not None:
                        par.description = "edited next to the placeholder"
                    frag.save()
                    # the session goes on after the save: every observation still answers as before (the edits touched descriptions only)
                    df2 = digest(frag, sample, rel_sample, anchors, types)
                    for key in dm:
                        if df2.get(key) != df.get(key):
                            what = key[0] if isinstance(key, tuple) else key
                            chk.violation(f"after-save:{what}", f"{key}: the fragmented model gave {str(df.get(key))[:160]} before save() and gives {str(df2.get(key))[:160]} afterwards",
                                          {"model": spec0["name"], "picks": picks, "observation": list(key) if isinstance(key, tuple) else key, "before": df.get(key), "after": df2.get(key)})
                            break
                    import lxml.etree as ET
                    ftxt = (tmp / "m" / dict(picks)[chosen[-1].get("id")]).read_bytes()
                    mtxt = (tmp / "m" / capella).read_bytes()
                    if b"renamed in fragment" not in ftxt or b"renamed in fragment" in mtxt:
                        chk.violation("save-wrong-owner", "an edit inside a fragment was not written to the fragment file (or leaked into the main file)",
                                      {"model": spec0["name"], "picks": picks})
                    # a second round through an object looked up again ...
                    tgt2 = frag.by_uuid(chosen[-1].get("id"))
                    tgt2.summary = "second round"
                    # ... the object held since before the save must still be the same model object
                    held_name = f"held {li}"
                    try:
                        tgt.name = held_name
                        if str(frag.by_uuid(chosen[-1].get("id")).name) != held_name:
                            chk.violation("stale-object-after-save", "an object held since before save() (the root element of a fragment) no longer writes to the model after the save: "
                                          "setting .name on it is not visible through by_uuid()", {"model": spec0["name"], "picks": picks, "uuid": chosen[-1].get("id")})
                    except Exception as ex:  # noqa: BLE001
                        chk.violation(f"stale-object-after-save:{type(ex).__name__}", f"setting an attribute on an object held across save() raised {ex!r}", {"picks": picks})
                    frag.save()
                    re = capellambse.MelodyModel(str(tmp / "m" / aird))
                    if "renamed in fragment" not in str(re.by_uuid(chosen[-1].get("id")).description) or str(re.by_uuid(chosen[-1].get("id")).summary) != "second round":
                        chk.violation("save-reload-lost-edit", "edit inside a fragment lost after save+reload", {"picks": picks})
                    dr = digest(re, sample, rel_sample, anchors, types)
                    for key in dm:
                        if dr.get(key) != dm[key]:
                            what = key[0] if isinstance(key, tuple) else key
                            chk.violation(f"after-reload:{what}", f"{key}: the edited single-file model gives {str(dm[key])[:160]}, the saved and reloaded fragmented one {str(dr.get(key))[:160]}",
                                          {"model": spec0["name"], "picks": picks, "observation": list(key) if isinstance(key, tuple) else key})
                            break
                    del re
                except Exception as ex:  # noqa: BLE001
                    chk.violation(f"edit-save-fails:{type(ex).__name__}", f"edit+save on fragmented layout fails: {ex!r}", {"model": spec0["name"], "picks": picks})
                stats["edit+save"] += 1
                del frag
            if li == 0:
                chk.samples.append({"picks": picks})
        del mono
    chk.correspond("From V Require Import Model.Graph.", "w_queries", qcases, tag="C06_anc", shard=1, timeout=900)
    chk.correspond("From V Require Import Model.Graph.", "w_children", ccases, tag="C06_chi", shard=1, timeout=900)
    chk.coverage.update({"stats": dict(stats),
                         "rule": "1-3 (also nested) subtree roots per layout, rotating over every element type that has children, fragment files at several "
                                 "directory locations (space, %, non-ASCII); parent chain / children / descendant count / xtype for the fragment roots, their "
                                 "neighbours and a random sample; every relation of ~40 objects; search(type) and search(type, below=anchor); then edit+save+reload"})
    chk.assumptions += ["the fragment file shape produced by harness/fragmenter.py is what Capella writes (no Capella available offline)"]


if __name__ == "__main__":
    lib.main("C06", run)
