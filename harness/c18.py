"""C18 — SVG output is well-formed, complete and self-contained.

Implementation side: every diagram of the corpus models and generated diagrams (built directly from
capellambse.diagram.Diagram/Box/Edge/Circle) covering every (diagram class x element kind x style
class x label/feature shape x override) combination of the style tables, plus a single-element probe over the FULL
cross product element kind (box, symbol, box_symbol, edge, circle) x style class (every Type.Class key of every table
of STYLES, every name of the symbol registry, every string of every set in svg/decorations.py, the oracle's own list
of port classes) x diagram class — also the pairings the stock tables and models do not contain — are rendered through the
public converter chain, re-parsed with lxml and checked by an oracle that shares no code with
capellambse; the abstract SVG (viewBox, groups, ids under <defs>, referenced ids) is compared with
what the Coq model (Model/SvgInst.v w_render) predicts for the same diagram.
"""
from __future__ import annotations

import fractions
import logging
import math
import os
import pathlib
import re
import sys

sys.path.insert(0, str(pathlib.Path(__file__).resolve().parent))
import lib
from lib import Err, err_of

from lxml import etree as LX

SVG = "{http://www.w3.org/2000/svg}"
XLINK = "{http://www.w3.org/1999/xlink}"
URL = re.compile(r"url\(\s*(?:\"|')?#([^\"')]*)(?:\"|')?\s*\)")
MARGIN = 10
KINDS = {"box": 0, "edge": 1, "circle": 2, "symbol": 3, "box_symbol": 4}
KIND_WORD = {0: "Box", 1: "Edge", 2: "Circle", 3: "Box", 4: "Box"}

CORPUS_QUICK = ["melodymodel/5_2/Melody Model Test.aird"]
CORPUS_ALL = CORPUS_QUICK + [
    "melodymodel/5_0/Melody Model Test.aird", "melodymodel/6_0/Melody Model Test.aird",
    "parser/TestItems.aird", "filtering/Filtered Project.aird", "writemodel/WriteTestModel.aird",
    "pvmt/PVMTTest.aird", "decl/empty_project_52/empty_project_52.aird", "Library Test/Library Test.aird",
    "Library Project/Library Project.aird",
]


# ------------------------------------------------------------------ independent helpers
def hex_of_rgb(v) -> str:
    r, g, b = int(v[0]), int(v[1]), int(v[2])
    a = float(v[3]) if len(v) > 3 else 1.0
    s = "%02X%02X%02X" % (r, g, b)
    return s if a >= 1.0 else s + "%02X" % int(a * 255)


def hex_of_css(s: str) -> str | None:
    """'#rgb', '#rrggbb', '#rrggbbaa', 'rgb(r,g,b)' -> the hex text used in ids; None if not a colour"""
    t = s.strip().lower()
    m = re.fullmatch(r"rgba?\(\s*(\d+)\s*,\s*(\d+)\s*,\s*(\d+)\s*(?:,\s*([0-9.]+)\s*)?\)", t)
    if m:
        return hex_of_rgb((int(m[1]), int(m[2]), int(m[3]), float(m[4]) if m[4] else 1.0))
    if re.fullmatch(r"#[0-9a-f]{6}", t):
        return t[1:].upper()
    if re.fullmatch(r"#[0-9a-f]{3}", t):
        return "".join(c * 2 for c in t[1:]).upper()
    if re.fullmatch(r"#[0-9a-f]{8}", t):
        a = int(t[7:9], 16) / 255
        return hex_of_rgb((int(t[1:3], 16), int(t[3:5], 16), int(t[5:7], 16), a))
    return None


def is_rgb(v) -> bool:
    return isinstance(v, tuple) and hasattr(v, "tohex") and len(v) == 4


def enc_sval(v):
    """style value -> the val shape Model/SvgInst.v dec_sval reads; None if it cannot be expressed"""
    if v is None:
        return None
    if is_rgb(v):
        return [1, hex_of_rgb(v)]
    if isinstance(v, bool):
        raise ValueError("bool style")
    if isinstance(v, int):
        return v
    if isinstance(v, float):
        return [0, repr(v)]
    if isinstance(v, str):
        h = hex_of_css(v)
        return [1, h] if h is not None else [0, v]
    if isinstance(v, (list, tuple)):
        hs = []
        for i in v:
            h = hex_of_rgb(i) if is_rgb(i) else hex_of_css(i) if isinstance(i, str) else None
            if h is None:
                raise ValueError("gradient stop")
            hs.append(h)
        return [2, *hs]
    raise ValueError(f"style value {v!r}")


def own_hidden(e) -> bool:
    return bool(getattr(e, "_hidden", getattr(e, "hidden", False)))


def anc_chain(e) -> list[list[bool]]:
    out, p, n = [], getattr(e, "_parent", None), 0
    while p is not None and n < 100:
        out.append([own_hidden(p), bool(getattr(p, "collapsed", False))])
        p, n = getattr(p, "_parent", None), n + 1
    return out


def ends_of(e, depth=0) -> list[list]:
    out = []
    for end in (getattr(e, "source", None), getattr(e, "target", None)):
        if end is None:
            continue
        out.append([own_hidden(end), anc_chain(end)])
        if hasattr(end, "source") and depth < 5:
            out.extend(ends_of(end, depth + 1))
    return out


def eff_hidden(e) -> bool:
    """the oracle's own reading of 'hidden': own flag, hidden/collapsed ancestor, hidden edge end"""
    if own_hidden(e) or any(h or c for h, c in anc_chain(e)):
        return True
    return any(h or any(x or y for x, y in a) for h, a in ends_of(e))


def abstract_elem(e) -> list:
    kind = KINDS[e.JSON_TYPE]
    cls = e.styleclass if e.styleclass is not None else "None"
    ov = [[k, enc_sval(v)] for k, v in (e.styleoverrides or {}).items()]
    label, nfloat, nfeat = False, 0, 0
    if kind in (0, 3, 4):
        label = bool(e.label)
        if e.floating_labels is not None and not e.hidelabel:
            nfloat = len(e.floating_labels)
        nfeat = len(e.features or []) if kind == 0 else 0
        if kind == 3:
            label = False
    elif kind == 1:
        nfloat = len([lb for lb in e.labels if not eff_hidden(lb)])
    uid = e.uuid
    return [kind, uid, cls, sorted(e.context), ov, label, nfloat, nfeat, own_hidden(e), anc_chain(e),
            ends_of(e) if kind == 1 else []]


def frac(v: float):
    f = fractions.Fraction(v)
    return [f.numerator, f.denominator]


def abstract_diagram(dg):
    """-> (val for w_render, exact?)  exact=False when a float addition val+0.5 is not exact / not finite"""
    vp = None
    exact = True
    if dg.viewport is not None:
        vals = [dg.viewport.pos.x, dg.viewport.pos.y, dg.viewport.size.x, dg.viewport.size.y]
        if not all(math.isfinite(v) for v in vals):
            return None, False
        for v in vals:
            if fractions.Fraction(v) + fractions.Fraction(1, 2) != fractions.Fraction(float(v) + 0.5):
                exact = False
        vp = [frac(float(v)) for v in vals]
    return [dg.styleclass, vp, [abstract_elem(e) for e in dg]], exact


def scan_svg(svg: str):
    """parse with lxml; -> dict(viewbox, size, groups, defs, refs, dup_ids, root)"""
    parser = LX.XMLParser(resolve_entities=False, no_network=True, huge_tree=True)
    root = LX.fromstring(svg.encode("utf-8"), parser)
    ids: list[str] = []
    refs: list[str] = []
    for el in root.iter():
        if not isinstance(el.tag, str):
            continue
        for k, v in el.attrib.items():
            if k == "id":
                ids.append(v)
            refs.extend(URL.findall(v))
            if k in ("href", XLINK + "href") and v.startswith("#"):
                refs.append(v[1:])
    defs_ids = []
    for d in root.iter(SVG + "defs"):
        for el in d.iter():
            if isinstance(el.tag, str) and el.get("id") is not None:
                defs_ids.append(el.get("id"))
    groups = [[g.get("id"), g.get("class") or ""] for g in root if g.tag == SVG + "g"]
    dup = sorted({i for i in ids if ids.count(i) > 1})
    return {"root": root, "viewbox": (root.get("viewBox") or "").split(), "width": root.get("width"), "height": root.get("height"),
            "groups": groups, "defs": sorted(set(defs_ids)), "refs": sorted(set(refs)), "ids": set(ids), "dup": dup}


def words_match(label: str, rendered: list[str]) -> bool:
    """the label's words appear in order in the rendered words, possibly cut short by an ellipsis"""
    w = label.split()
    if not w:
        return True
    n = len(rendered)
    for p in range(n):
        if rendered[p:p + len(w)] == w:
            return True
        # ellipsis: some prefix of the words, the last one (or a lone token) carrying "..."
        for k in range(1, len(w) + 1):
            if p + k > n:
                break
            if rendered[p:p + k - 1] != w[:k - 1]:
                break
            last = rendered[p + k - 1]
            if last == w[k - 1] + "...":
                return True
        if rendered[p] == "..." :
            return True
        # prefix of the words followed by a lone "..."
        k = 0
        while p + k < n and k < len(w) and rendered[p + k] == w[k]:
            k += 1
        if k and p + k < n and rendered[p + k] == "...":
            return True
    return False


def expected_labels(e) -> list[tuple[str, str]]:
    """(what, text) that must be readable in the element's group"""
    kind = KINDS[e.JSON_TYPE]
    out = []
    if kind in (0, 4) and e.label and not e.hidelabel and getattr(e, "description", None) is None:
        out.append(("label", e.label))
    if kind in (0, 3, 4) and e.floating_labels is not None and not e.hidelabel:
        for fl in e.floating_labels:
            out.append(("floating", fl if isinstance(fl, str) else fl.label))
    if kind == 0:
        for f in e.features or []:
            if not re.search(r"[<&]", f):
                out.append(("feature", f))
    if kind == 1:
        for lb in e.labels:
            if not eff_hidden(lb):
                out.append(("edgelabel", lb.label))
    return [(k, t) for k, t in out if isinstance(t, str)]


class Oracle:
    def __init__(self, chk: lib.Check):
        self.chk = chk
        self.stats = {"diagrams": 0, "elements": 0, "hidden": 0, "labels": 0, "ellipsis": 0, "wrapped": 0,
                      "markup_labels": 0, "refs": 0, "inexact_viewport": 0, "render_errors": 0}

    def check(self, tag: str, dg, svg: str, replay: dict, ref_keys: dict | None = None):
        """-> abstract output for the correspondence (or None); ref_keys: finding key to use for certain dangling ids"""
        chk, st = self.chk, self.stats
        st["diagrams"] += 1
        try:
            sc = scan_svg(svg)
        except LX.XMLSyntaxError as e:
            chk.violation(f"malformed:{tag}", f"{tag}: output is not well-formed XML: {e}", replay)
            return None
        # --- viewBox = viewport + margin
        try:
            vb = [int(x) for x in sc["viewbox"]]
        except ValueError:
            vb = None
        if dg.viewport is None:
            want = [[-MARGIN], [-MARGIN], [2 * MARGIN], [2 * MARGIN]]
        else:
            vals = [dg.viewport.pos.x, dg.viewport.pos.y, dg.viewport.size.x, dg.viewport.size.y]
            pads = [-MARGIN, -MARGIN, 2 * MARGIN, 2 * MARGIN]
            want = [sorted({math.floor(v + 0.5) + p, math.trunc(v + 0.5) + p}) for v, p in zip(vals, pads)] \
                if all(math.isfinite(v) for v in vals) else None
        if want is not None and (vb is None or len(vb) != 4 or any(v not in w for v, w in zip(vb, want))):
            chk.violation(f"viewbox:{tag}", f"{tag}: viewBox {sc['viewbox']} is not viewport {dg.viewport} + margin {MARGIN} (expected one of {want})", replay)
        if vb is not None and len(vb) == 4 and (sc["width"] != str(vb[2]) or sc["height"] != str(vb[3])):
            chk.violation(f"size:{tag}", f"{tag}: width/height {sc['width']}x{sc['height']} differ from the viewBox {vb}", replay)
        # --- groups
        visible = [e for e in dg if not eff_hidden(e)]
        hidden = [e for e in dg if eff_hidden(e)]
        st["elements"] += len(visible)
        st["hidden"] += len(hidden)
        root = sc["root"]
        all_groups = [g for g in root.iter(SVG + "g") if not any(a.tag in (SVG + "defs", SVG + "symbol") for a in g.iterancestors())]
        ids_of_groups = [g.get("id") for g in all_groups if g.get("id") is not None]
        want_ids = [e.uuid for e in visible if e.uuid is not None]
        if sorted(ids_of_groups) != sorted(want_ids) or len(sc["groups"]) != len(visible):
            missing = sorted(set(want_ids) - set(ids_of_groups))
            extra = sorted(set(ids_of_groups) - set(want_ids))
            dupl = sorted({i for i in ids_of_groups if ids_of_groups.count(i) > 1})
            chk.violation(f"groups:{tag}", f"{tag}: groups do not match the visible elements: {len(sc['groups'])} top-level groups for "
                          f"{len(visible)} visible elements; missing {missing[:3]} extra {extra[:3]} duplicated {dupl[:3]}", replay)
        by_id = {g.get("id"): g for g in all_groups if g.get("id") is not None}
        for e in visible:
            g = by_id.get(e.uuid)
            if g is None:
                continue
            toks = (g.get("class") or "").split()
            cls = e.styleclass if e.styleclass is not None else "None"
            if cls.split() and not all(t in toks for t in cls.split()):
                chk.violation(f"class:{tag}", f"{tag}: group {e.uuid} has class {g.get('class')!r}, style class {cls!r} missing", replay)
            if KIND_WORD[KINDS[e.JSON_TYPE]] not in toks:
                chk.violation(f"kindword:{tag}", f"{tag}: group {e.uuid} has class {g.get('class')!r} without its kind word", replay)
            # --- label text
            rendered = " ".join("".join(t.itertext()) for t in g.iter(SVG + "tspan")).split()
            for what, text in expected_labels(e):
                st["labels"] += 1
                if re.search(r"[<>&\"']", text):
                    st["markup_labels"] += 1
                if not words_match(text, rendered):
                    chk.violation(f"label:{tag}", f"{tag}: {what} text {text!r} of {e.uuid} is not in the output (rendered words: {rendered[:12]})", replay)
            if any(t.endswith("...") for t in rendered):
                st["ellipsis"] += 1
            if len(list(g.iter(SVG + "tspan"))) > 1:
                st["wrapped"] += 1
        for e in hidden:
            if e.uuid is not None and e.uuid in sc["ids"] and e.uuid not in want_ids:
                chk.violation(f"hidden:{tag}", f"{tag}: hidden element {e.uuid} appears in the output", replay)
        # --- references
        st["refs"] += len(sc["refs"])
        for r in sc["refs"]:
            if r not in sc["ids"]:
                chk.violation((ref_keys or {}).get(r, f"dangling:{r}"), f"{tag}: reference #{r} has no definition in the document", replay)
        if sc["dup"]:
            st.setdefault("documents_with_duplicate_ids", 0)   # not asked for by the property: counted only
            st["documents_with_duplicate_ids"] += 1
        vbv = vb if vb is not None and len(vb) == 4 else [0, 0, 0, 0]
        return [vbv, sc["groups"], sc["defs"], sc["refs"]]


# ------------------------------------------------------------------ generated diagrams
OVERRIDES = 7
MARKUP_LABELS = [
    "<b>bold</b>", "a & b", "&amp; &lt;", "&#65;&#x42;", "<![CDATA[x]]>", "]]> end", "<!-- c -->", "<?pi x?>",
    "\"dq\" 'sq'", "x<y>z", "</g></svg>", "<script>alert(1)</script>", "if a<b && c>d", "R&D", "&nosuch;", "<", ">", "&",
    "<tspan x=\"0\">t</tspan>", "a\tb", "line1\nline2", "cr\rlf", "\u00a0nbsp\u00a0", "Ünïcödé ßtraße", "漢字 テスト",
    "😀 emoji 🚀", "\u2028sep\u2029", "\ufffd\ud7ff\ue000", "mixed <i>&quot;</i> €",
]
PLAIN = ["one", "Function 1", "Some Component", "a fairly long label that needs to be wrapped over several lines to fit the box",
         "averyveryveryveryveryveryveryveryveryveryveryverylongsingleword", "x", "CP 1", "[guard] / action"]
FEATURES = ["attr : Type", "- op()", "x > 1", "a & b", "\"quoted\"", "1 < 2", "value = 'v'", "€ ünï", "tab\tfeat", "&amp;"]


def xml_legal_char(rng) -> str:
    r = rng.random()
    if r < 0.45:
        return chr(rng.randint(0x20, 0x7E))
    if r < 0.6:
        return rng.choice("<>&\"' \t")
    if r < 0.8:
        return chr(rng.choice([rng.randint(0xA0, 0x24F), rng.randint(0x370, 0x3FF), rng.randint(0x4E00, 0x4E40), rng.randint(0x2000, 0x206F)]))
    if r < 0.9:
        c = rng.randint(0x80, 0xFFFD)
        return chr(c) if not 0xD800 <= c <= 0xDFFF else ""
    if r < 0.95:
        return chr(rng.randint(0x10000, 0x10FFFF))
    return rng.choice(["\n", "\r", "\u0085", "\u2028"])


def rand_label(rng, n=None) -> str:
    r = rng.random()
    if r < 0.3:
        return rng.choice(MARKUP_LABELS)
    if r < 0.5:
        return rng.choice(PLAIN)
    s = "".join(xml_legal_char(rng) for _ in range(n or rng.randint(1, 40)))
    return s if s.split() else s + "w"


def reflect_domain():
    from capellambse.diagram import capstyle, _icons
    from capellambse.svg import decorations, symbols  # noqa: F401
    styles = capstyle.STYLES
    glob = styles.get("__GLOBAL__", {})
    symnames = [k[:-6] for k in _icons._FACTORIES if k.endswith("Symbol")]
    ports = sorted(decorations.all_ports)
    dom = {}
    for dc in [None, *styles]:
        tbl = {**glob, **styles.get(dc or "", {})}
        boxc = sorted({k[4:] for k in tbl if k.startswith("Box.")})
        edgec = sorted({k[5:] for k in tbl if k.startswith("Edge.")})
        kcs = [(0, c) for c in sorted(set(boxc) | set(symnames))] + [(4, c) for c in boxc] \
            + [(1, c) for c in sorted(set(edgec) | set(symnames))] + [(2, c) for c in edgec] \
            + [(3, c) for c in sorted(set(symnames) | set(ports))]
        dom[dc] = kcs
    return dom, set(ports)


# the port kinds of Capella diagrams — the oracle's own list, not read from the code under check
OWN_PORT_CLASSES = {"FIP", "FOP", "CP_IN", "CP_OUT", "CP_INOUT", "CP_UNSET", "PP"}


def class_universe():
    """every style class the renderer can meet: the Type.Class keys of every table of STYLES, the names of the symbol
    registry, every string in a set-valued module attribute of svg/decorations.py (all_ports, component_ports,
    function_ports, all_directed_ports, start_aligned, only_icons, ... whatever sets the module has), the oracle's
    own port list.  -> (classes listed per diagram class incl. __GLOBAL__, classes that belong to every diagram class,
    port-like classes, registered symbol names)"""
    from capellambse.diagram import capstyle, _icons
    from capellambse.svg import decorations
    per_dc = {}
    for dc, tbl in capstyle.STYLES.items():
        per_dc[dc] = {k.split(".", 1)[1] for k in tbl if "." in k and k.split(".", 1)[1]}
    deco_sets = {}
    for name, v in vars(decorations).items():
        if not name.startswith("_") and isinstance(v, (set, frozenset)) and v and all(isinstance(i, str) for i in v):
            deco_sets[name] = set(v)
    symnames = {k[:-6] for k in _icons._FACTORIES if k.endswith("Symbol") and k != "ErrorSymbol"}
    portish = set(OWN_PORT_CLASSES)
    for name, v in deco_sets.items():
        if "port" in name.lower():
            portish |= v
    everywhere = set(per_dc.get("__GLOBAL__", ())) | symnames | portish
    for v in deco_sets.values():
        everywhere |= v
    return per_dc, everywhere, portish, symnames, deco_sets


SHAPES = {0: [(False, 0, 0), (True, 0, 0), (False, 1, 0), (True, 2, 0), (True, 0, 2), (False, 0, 1)],
          4: [(False, 0, 0), (True, 0, 0), (True, 1, 0)],
          3: [(False, 0, 0), (False, 1, 0)],
          1: [(False, 0, 0), (False, 1, 0), (False, 2, 0)],
          2: [(False, 0, 0)]}


def override(i: int):
    from capellambse.diagram import RGB
    a, b = RGB(1, 2, 3), RGB(160, 176, 192)
    return [{}, {"fill": a}, {"fill": [a, b]}, {"stroke": b}, {"stroke": b, "stroke-width": 3, "fill": [b, a]},
            {"text_fill": a}, {"text_fill": [a, b], "fill": [b, a]}][i]


def raise_key(kind, cls, e: BaseException) -> str:
    """stable key naming the failure mode of a rendering that raises"""
    msg = str(e)
    if isinstance(e, ValueError) and "Invalid attribute 'rx' for svg-element <use>" in msg:
        return f"render-raises:use-rx:{cls}"
    if isinstance(e, TypeError) and "'transparent' is not a valid value for attribute 'stroke'" in msg:
        return f"render-raises:stroke-transparent:{cls}"
    if isinstance(e, TypeError) and "'None' is not a valid value for attribute 'stroke' at svg-element <line>" in msg:
        return f"render-raises:featureline-stroke-none:{cls}"
    return f"render-raises:gen:{kind}:{cls}:{type(e).__name__}"


class Gen:
    """builds one diagram out of element specs; a spec is plain data (replayable)"""

    def __init__(self):
        self.n = 0

    def uid(self) -> str:
        self.n += 1
        return f"u{self.n}"

    def build(self, spec: dict):
        from capellambse import diagram
        self.n = 0
        dg = diagram.Diagram(spec.get("name", "gen"), styleclass=spec["dc"])
        y = spec.get("y0", 10.0)
        x0 = spec.get("x0", 10.0)
        for es in spec["elems"]:
            kind, cls = es["kind"], es["cls"]
            ov = override(es.get("ov", 0))
            label = es.get("label", "")
            floats = es.get("floats", [])
            feats = es.get("feats", [])
            hidden = es.get("hidden", False)
            ctx = es.get("ctx", [])
            if kind == "tree":
                y = self.build_tree(dg, es, x0, y)
                continue
            if kind in (0, 4):
                h = 80 + 16 * len(feats) + (30 if feats else 0)
                size = es.get("size", (160, h))
                box = diagram.Box((x0, y), size, label=label, uuid=self.uid(), styleclass=cls, styleoverrides=dict(ov),
                                  floating_labels=[diagram.Box((x0 + 5, y + 20 + 14 * i), (150, 14), label=t) for i, t in enumerate(floats)],
                                  features=list(feats) if feats else None, hidden=hidden, context=ctx,
                                  collapsed=es.get("collapsed", False))
                if kind == 4:
                    box.JSON_TYPE = "box_symbol"
                dg.add_element(box)
                if es.get("child"):
                    ch = diagram.Box((x0 + 20, y + 30), (60, 30), label=es["child"], uuid=self.uid(), styleclass=cls,
                                     parent=box, hidden=es.get("child_hidden", False))
                    dg.add_element(ch)
                y += size[1] + 20
            elif kind == 3:
                if es.get("port"):
                    par = diagram.Box((x0, y), (160, 80), label="parent", uuid=self.uid(), styleclass="LogicalComponent")
                    dg.add_element(par)
                    sym = diagram.Box((x0 - 5, y + 30), (10, 10), uuid=self.uid(), styleclass=cls, styleoverrides=dict(ov), parent=par,
                                      port=True, floating_labels=[diagram.Box((x0 - 40, y + 15), (60, 12), label=t) for t in floats],
                                      hidden=hidden, context=ctx)
                    y += 100
                else:
                    sym = diagram.Box((x0, y), (30, 30), uuid=self.uid(), styleclass=cls, styleoverrides=dict(ov), label=label,
                                      floating_labels=[diagram.Box((x0 - 20, y + 32), (200, 35), label=t) for t in floats],
                                      hidden=hidden, context=ctx)
                    y += 90
                sym.JSON_TYPE = "symbol"
                dg.add_element(sym)
            elif kind == 1:
                src = None
                if es.get("hidden_source"):
                    src = diagram.Box((x0 + 300, y), (160, 80), uuid=self.uid(), styleclass="LogicalComponent", hidden=True, label="HIDDEN-SRC")
                    dg.add_element(src)
                e = diagram.Edge([(x0, y), (x0 + 120, y), (x0 + 120, y + 30)], uuid=self.uid(), styleclass=cls, styleoverrides=dict(ov),
                                 labels=[diagram.Box((x0 + 10, y + 2 + 14 * i), (100, 14), label=t) for i, t in enumerate(floats)],
                                 hidden=hidden, context=ctx, source=src)
                dg.add_element(e)
                y += 60
            else:
                c = diagram.Circle((x0 + 5, y + 5), 5, uuid=self.uid(), styleclass=cls, styleoverrides=dict(ov), hidden=hidden, context=ctx)
                dg.add_element(c)
                y += 30
        return dg


def _build_tree(self, dg, es, x0, y):
    from capellambse import diagram
    nodes, made = es["nodes"], []
    depth = es["depth"]
    W, H = 240 + 40 * depth, 100 * 2 ** depth        # children are stacked: the width shrinks by 20 per level, the height halves
    slot = {}
    for i, nd in enumerate(nodes):
        par = made[nd["parent"]] if nd["parent"] is not None else None
        uid = self.uid()
        flag = nd["flag"]
        if nd["port"]:
            k = slot[nd["parent"]] = slot.get(nd["parent"], 0) + 1
            b = diagram.Box((par.pos.x + par.size.x - 5, par.pos.y + 6 + 12 * k), (10, 10), uuid=uid, styleclass=("FOP", "FIP", "CP_INOUT")[i % 3],
                            port=True, parent=par, hidden=flag == "hidden",
                            floating_labels=[diagram.Box((par.pos.x + par.size.x + 8, par.pos.y + 12 * k), (90, 12), label=f"TXT{uid}F")] * nd["floats"])
            b.JSON_TYPE = "symbol"
        elif par is None:
            b = diagram.Box((x0 + (W + 140) * (i > 0), y), (W if i else 100, H if i else 60), label=f"TXT{uid}L", uuid=uid, styleclass=es["cls"],
                            hidden=flag == "hidden", collapsed=flag == "collapsed")
        else:
            k = slot[("c", nd["parent"])] = slot.get(("c", nd["parent"]), 0) + 1
            h = (par.size.y - 45) / 2
            b = diagram.Box((par.pos.x + 10, par.pos.y + 35 + (h + 5) * (k - 1)), (par.size.x - 20, h), label=f"TXT{uid}L", uuid=uid,
                            styleclass=es["cls"] if nd["level"] + 1 < depth else "LogicalFunction", parent=par,
                            hidden=flag == "hidden", collapsed=flag == "collapsed")
        made.append(b)
        dg.add_element(b)
    emade = []
    for ed in es["edges"]:
        uid = self.uid()
        src = made[ed["source"]]
        tgt = emade[ed["target_edge"]] if "target_edge" in ed else made[ed["target"]]
        p1 = (src.pos.x + 5, src.pos.y + 5)
        p2 = (tgt.pos.x + 5, tgt.pos.y + 5) if hasattr(tgt, "pos") else tuple(tgt[0])
        e = diagram.Edge([p1, ((p1[0] + p2[0]) / 2, p1[1]), p2], uuid=uid, styleclass="FunctionalExchange", source=src, target=tgt,
                         hidden=ed["flag"] == "hidden",
                         labels=[diagram.Box(((p1[0] + p2[0]) / 2, p1[1] + 3), (90, 12), label=f"TXT{uid}E")] * ed["labels"])
        emade.append(e)
        dg.add_element(e)
    return y + H + 30


Gen.build_tree = _build_tree


def tree_spec(rng, depth: int, flags_at: dict) -> dict:
    """One nested container: a chain of `depth` boxes (level 0 outermost) with siblings, ports and port-to-port edges at
    every level; flags_at: level -> "hidden" | "collapsed" for the box of the chain at that level.  Plain data."""
    nodes, edges = [], []          # node: [parent index or None, level, flag, is_port, has_label]

    def add(parent, level, flag, port=False):
        nodes.append({"parent": parent, "level": level, "flag": flag, "port": port, "floats": int(port and rng.random() < 0.5)})
        return len(nodes) - 1
    outside = add(None, 0, None)
    out_port = add(outside, 1, None, port=True)
    cur, ports_of = None, [out_port]
    for level in range(depth):
        cur = add(cur, level, flags_at.get(level))
        ports_of.append(add(cur, level + 1, rng.choice([None] * 5 + ["hidden"]), port=True))
        if rng.random() < 0.6:       # a sibling next to the chain, with its own port
            sib = add(nodes[cur]["parent"], level, rng.choice([None] * 4 + ["hidden", "collapsed"]))
            ports_of.append(add(sib, level + 1, None, port=True))
    for a in ports_of[1:]:
        edges.append({"source": a, "target": out_port, "flag": rng.choice([None] * 6 + ["hidden"]), "labels": rng.randint(0, 1)})
    for _ in range(rng.randint(0, 2)):
        a, b = rng.sample(ports_of, 2)
        edges.append({"source": a, "target": b, "flag": None, "labels": rng.randint(0, 1)})
    if rng.random() < 0.3:           # an edge whose end is an edge
        edges.append({"source": ports_of[-1], "target_edge": 0, "flag": None, "labels": 0})
    return {"kind": "tree", "cls": "LogicalComponent", "nodes": nodes, "edges": edges, "depth": depth}


def spec_for(dc, kind, cls, ports, rng, ovs, with_hidden: bool) -> dict:
    elems = []
    for (lab, nfl, nfe), ov in zip(SHAPES[kind], ovs):
        es = {"kind": kind, "cls": cls, "ov": ov,
              "label": rand_label(rng) if lab else "",
              "floats": [rand_label(rng) for _ in range(nfl)],
              "feats": [rng.choice(FEATURES) for _ in range(nfe)],
              "ctx": [f"c{rng.randint(0, 9)}" for _ in range(rng.randint(0, 2))]}
        if kind == 3 and cls in ports:
            es["port"] = True
        if kind == 0 and lab and rng.random() < 0.2:
            es["child"] = rand_label(rng)
        elems.append(es)
    if with_hidden:
        elems.append({"kind": kind, "cls": cls, "hidden": True, "label": "HIDDEN-OWN" if kind in (0, 4) else "",
                      "floats": ["HIDDEN-FLOAT"] if kind in (1, 3) else [], **({"port": True} if kind == 3 and cls in ports else {})})
        if kind == 0:
            elems.append({"kind": 0, "cls": cls, "label": "collapsed parent", "collapsed": True, "child": "HIDDEN-CHILD"})
            elems.append({"kind": 0, "cls": cls, "label": "HIDDEN-PARENT", "hidden": True, "child": "HIDDEN-GRANDCHILD"})
        if kind == 1:
            elems.append({"kind": 1, "cls": cls, "floats": ["HIDDEN-BY-END"], "hidden_source": True})
    off = rng.choice([0.0, 0.25, 0.5, 0.75, -7.5, -3.25, 100.5])
    return {"dc": dc, "elems": elems, "x0": 10.0 + off, "y0": 10.0 + rng.choice([0.0, 0.5, -20.5, -0.75, 3.25])}


# ------------------------------------------------------------------ the check
def run(chk: lib.Check):
    logging.disable(logging.CRITICAL)
    os.environ.pop("CAPELLAMBSE_SVG_DEBUG", None)
    import capellambse
    from capellambse import diagram, helpers
    from capellambse.diagram import _json_enc
    from capellambse.model import diagram as mdiagram

    pr = chk.prove(timeout=900)
    quick = chk.tier == "quick"
    rng = chk.rng
    orc = Oracle(chk)
    cases: list[tuple] = []
    descs: list = []

    def to_svg(dg) -> str:
        return mdiagram.SVGFormat.convert(mdiagram.convert_svgdiagram(dg))

    def one(tag: str, dg, svg: str, replay: dict, nontrivial=True, ref_keys=None):
        out = orc.check(tag, dg, svg, replay, ref_keys)
        chk.note_case(tag, nontrivial=nontrivial)
        if out is None:
            return
        try:
            inp, exact = abstract_diagram(dg)
        except ValueError as e:
            chk.coverage.setdefault("not_expressible", []).append(f"{tag}: {e}")
            return
        if inp is None:
            return
        if not exact:
            orc.stats["inexact_viewport"] += 1
            return
        cases.append((inp, out))
        descs.append(replay)

    # ---------------- replay of one recorded failing input
    if getattr(chk, "replay_file", None):
        import json
        rp = json.loads(pathlib.Path(chk.replay_file).read_text()).get("replay", {})
        if rp.get("source", "").startswith("generated") and "spec" in rp:
            spec = rp["spec"]
            for es in spec["elems"]:
                if "size" in es:
                    es["size"] = tuple(es["size"])
            try:
                dg = Gen().build(spec)
                one("replay", dg, to_svg(dg), rp)
            except Exception as e:  # noqa: BLE001
                chk.violation(f"render-raises:replay:{type(e).__name__}", f"replayed diagram: rendering raises {e!r}", rp)
        elif rp.get("source") == "corpus":
            model = capellambse.MelodyModel(str(lib.REPO / "tests/data" / rp["model"]))
            d = model.diagrams.by_uuid(rp["diagram"])
            one("replay", d.render(None), d.render("svg"), rp)
        else:
            chk.broken.append("replay: nothing replayable in " + str(chk.replay_file))
        chk.coverage.update(orc.stats)
        chk.correspond("From V Require Import Model.SvgInst.", "w_render", cases, tag="C18_replay")
        return

    # ---------------- (a) corpus
    corpus = CORPUS_QUICK if quick else CORPUS_ALL
    ndiag = 0
    for mp in corpus:
        path = lib.REPO / "tests/data" / mp
        kw = {}
        if mp.startswith("Library Project"):
            kw["resources"] = {"Library Test": str(lib.REPO / "tests/data/Library Test")}
        try:
            model = capellambse.MelodyModel(str(path), **kw)
        except Exception as e:  # noqa: BLE001
            chk.broken.append(f"harness: cannot load {mp}: {e!r}")
            continue
        for d in model.diagrams:
            tag = f"corpus:{mp.split('/')[-2] if '/' in mp else mp}:{d.uuid}"
            replay = {"source": "corpus", "model": mp, "diagram": d.uuid, "name": d.name}
            try:
                svg = d.render("svg")
                dg = d.render(None)
            except Exception as e:  # noqa: BLE001
                orc.stats["render_errors"] += 1
                chk.violation(f"render-raises:{tag}:{type(e).__name__}", f"{tag} ({d.name}): render('svg') raises {e!r}", replay)
                continue
            ndiag += 1
            one(tag, dg, svg, replay)
            if ndiag == 3:
                chk.samples.append({"corpus diagram": d.name, "viewBox": cases[-1][1][0] if cases else None,
                                    "groups": len(cases[-1][1][1]) if cases else None})
    chk.coverage["corpus_diagrams"] = ndiag

    # ---------------- (b) generated: every (diagram class x kind x class) x shapes x overrides
    dom, ports = reflect_domain()
    gen = Gen()
    ncombo = 0
    pairs = [(dc, k, c) for dc, kcs in dom.items() for k, c in kcs]
    for idx, (dc, kind, cls) in enumerate(pairs):
        shapes = SHAPES[kind]
        if quick:
            rounds = [[(idx + i + chk.seed) % OVERRIDES for i in range(len(shapes))]]
        else:
            rounds = [[(r + i) % OVERRIDES for i in range(len(shapes))] for r in range(OVERRIDES)]
        for rno, ovs in enumerate(rounds):
            spec = spec_for(dc, kind, cls, ports, rng, ovs, with_hidden=(rng.random() < (0.3 if quick else 0.5)))
            tag = f"gen:{dc}:{kind}:{cls}:{rno}"
            replay = {"source": "generated", "spec": spec}
            try:
                dg = gen.build(spec)
                svg = to_svg(dg)
            except Exception as e:  # noqa: BLE001
                orc.stats["render_errors"] += 1
                chk.violation(raise_key(kind, cls, e),
                              f"generated diagram class={dc!r} kind={kind} style class={cls!r}: rendering raises {e!r}", replay)
                continue
            ncombo += len(shapes)
            one(tag, dg, svg, replay)
    chk.coverage["generated_pairs"] = len(pairs)
    chk.coverage["generated_combinations"] = ncombo

    # ---------------- (b+) nesting: containers of depth 3..6 with a hidden / collapsed flag at every level (and at two
    # levels at once), ports and port-to-port edges at every level.  Besides the group oracle: no text of an element that
    # the oracle reads as hidden (own flag, any ancestor hidden or collapsed, a hidden edge end) may be in the output.
    nest = {"diagrams": 0, "elements": 0, "hidden_elements": 0, "hidden_only_through_a_grandparent_or_higher": 0, "by_depth": {}}
    flagsets = []
    for depth in (3, 4, 5, 6):
        flagsets.append((depth, {}))
        for lv in range(depth):
            for fl in ("hidden", "collapsed"):
                flagsets.append((depth, {lv: fl}))
        for _ in range(3):
            a, b = sorted(rng.sample(range(depth), 2))
            flagsets.append((depth, {a: rng.choice(["hidden", "collapsed"]), b: rng.choice(["hidden", "collapsed"])}))
    if not quick:
        flagsets = flagsets * 6
    for n_, (depth, flags_at) in enumerate(flagsets):
        spec = {"dc": "Logical Architecture Blank", "elems": [tree_spec(rng, depth, flags_at)], "x0": 10.0, "y0": 10.0}
        tag = f"nest:depth{depth}:{sorted(flags_at.items())}:{n_}"
        replay = {"source": "generated", "spec": spec, "nesting_depth": depth, "flags_at_level": {str(k): v for k, v in flags_at.items()}}
        try:
            dg = gen.build(spec)
            svg = to_svg(dg)
        except Exception as e:  # noqa: BLE001
            orc.stats["render_errors"] += 1
            chk.violation(f"render-raises:nest:{type(e).__name__}", f"nested diagram (depth {depth}, flags {flags_at}): rendering raises {e!r}", replay)
            continue
        nest["diagrams"] += 1
        nest["by_depth"][depth] = nest["by_depth"].get(depth, 0) + 1
        for e in dg:
            nest["elements"] += 1
            if not eff_hidden(e):
                continue
            nest["hidden_elements"] += 1
            chain = anc_chain(e)
            if not own_hidden(e) and chain and not any(chain[0]) and any(h or c for h, c in chain[1:]):
                nest["hidden_only_through_a_grandparent_or_higher"] += 1
            token = f"TXT{e.uuid}"
            if token in svg:
                chk.violation(f"hidden-text:{tag}", f"{tag}: text of hidden element {e.uuid} ({token}...) is in the output", replay)
        one(tag, dg, svg, replay)
    chk.coverage["nested_containers"] = nest
    if not nest["hidden_only_through_a_grandparent_or_higher"]:
        chk.broken.append("harness: no generated element is hidden only through an ancestor two or more levels up")

    # ---------------- (b') single-element probe over the FULL cross product element kind x style class: every class of
    # every table of STYLES, of the symbol registry and of every set of svg/decorations.py, drawn as box, symbol,
    # box_symbol, edge and circle — under every diagram class that lists the class (and under no diagram class), the
    # classes that are not tied to a diagram class (__GLOBAL__, symbols, decoration sets, ports) under every diagram class.
    # The combinations the stock tables pair up are already in (b); these are the ones they do not.
    per_dc, everywhere, portish, symnames, deco_sets = class_universe()
    done = set(pairs)
    nprobe = nexcused = 0
    probe_hist: dict[str, int] = {}
    for dc in dom:
        classes = everywhere | per_dc.get(dc or "", set())
        if dc is None:                       # without a diagram class: every class of every table
            classes = classes.union(*per_dc.values())
        classes = sorted(classes)
        for cls in classes:
            for kind in (0, 3, 4, 1, 2):
                if (dc, kind, cls) in done:
                    continue
                es = {"kind": kind, "cls": cls, "ov": (nprobe + chk.seed) % OVERRIDES if not quick or nprobe % 3 == 0 else 0,
                      "label": rand_label(rng) if kind in (0, 4) else "",
                      "floats": [rand_label(rng)] if kind in (1, 3) else [],
                      "ctx": []}
                if kind == 3 and cls in portish:
                    es["port"] = True
                spec = {"dc": dc, "elems": [es], "x0": 10.0, "y0": 10.0}
                replay = {"source": "generated-cross", "spec": spec}
                kname = ["box", "edge", "circle", "symbol", "box_symbol"][kind]
                try:
                    dg = gen.build(spec)
                    svg = to_svg(dg)
                except Exception as e:  # noqa: BLE001
                    orc.stats["render_errors"] += 1
                    chk.violation(raise_key(kind, cls, e),
                                  f"single {kname} of style class {cls!r} in diagram class {dc!r}: rendering raises {e!r}", replay)
                    continue
                # the one excuse: a symbol element whose class has no symbol and is not a port falls back to the Error
                # symbol, whose id is not the referenced one (known finding probe:symbol-fallback)
                ref_keys = None
                if kind == 3 and cls not in portish and cls not in symnames:
                    ref_keys = {cls + "Symbol": "probe:symbol-fallback"}
                    nexcused += 1
                nprobe += 1
                probe_hist[kname] = probe_hist.get(kname, 0) + 1
                one(f"cross:{dc}:{kind}:{cls}", dg, svg, replay, ref_keys=ref_keys)
    chk.coverage["cross_product_probes"] = {"rendered": nprobe, "by_kind": probe_hist, "symbol_without_registered_symbol": nexcused,
                                            "port_like_classes": sorted(portish), "decoration_sets": {k: len(v) for k, v in sorted(deco_sets.items())}}

    from capellambse.diagram import capstyle as _cs
    rx_classes = {oc.split(".", 1)[1] for tbl in _cs.STYLES.values() for oc, st in tbl.items() if "." in oc and ("rx" in st or "ry" in st)}
    # mixed diagrams: many elements of different classes in one drawing (deco cache, defs dedupe)
    for i in range(20 if quick else 300):
        dc = rng.choice(list(dom))
        elems = []
        for _ in range(rng.randint(4, 14)):
            k, c = rng.choice(dom[dc])
            lab, nfl, nfe = rng.choice(SHAPES[k])
            # the three combinations that are recorded as known findings (rendering raises) would hide the
            # rest of a mixed drawing: they are exercised one by one in the exhaustive part only
            if (k in (0, 4) and c == "Text") or (k == 3 and c in rx_classes):
                continue
            if k == 0 and c == "Annotation":
                nfe = 0
            es = {"kind": k, "cls": c, "ov": rng.randrange(OVERRIDES), "label": rand_label(rng) if lab else "",
                  "floats": [rand_label(rng) for _ in range(nfl)], "feats": [rng.choice(FEATURES) for _ in range(nfe)],
                  "hidden": rng.random() < 0.15, "ctx": [f"c{rng.randint(0, 5)}" for _ in range(rng.randint(0, 3))]}
            if k == 3 and c in ports:
                es["port"] = True
            if k == 0 and rng.random() < 0.2:
                es["size"] = (rng.choice([148, 160, 300]), rng.choice([69, 80, 200]))
            elems.append(es)
        spec = {"dc": dc, "elems": elems, "x0": rng.choice([10.0, -33.5, 0.25]), "y0": rng.choice([10.0, -0.5, 7.75])}
        replay = {"source": "generated-mixed", "spec": spec}
        try:
            dg = gen.build(spec)
            svg = to_svg(dg)
        except Exception as e:  # noqa: BLE001
            orc.stats["render_errors"] += 1
            k = raise_key("mixed", "mixed", e)
            chk.violation(k if not k.startswith("render-raises:gen:") else f"render-raises:mixed:{type(e).__name__}",
                          f"mixed generated diagram: rendering raises {e!r}", replay)
            continue
        one(f"mixed:{i}", dg, svg, replay)

    # label stress: long / markup / random labels in minimum-size boxes (wrapping and ellipsis)
    for i in range(150 if quick else 2500):
        lab = rand_label(rng, rng.randint(1, 200)) if i % 3 else " ".join(rng.choice(PLAIN + MARKUP_LABELS) for _ in range(rng.randint(1, 12)))
        cls = rng.choice(["LogicalComponent", "LogicalFunction", "Class", "Note", "Requirement", "SystemActor"])
        spec = {"dc": rng.choice(["Logical Architecture Blank", "Class Diagram Blank", None]),
                "elems": [{"kind": 0, "cls": cls, "label": lab, "size": (rng.choice([148, 200, 400]), rng.choice([69, 90, 150])),
                           "floats": [rand_label(rng)] if i % 5 == 0 else []},
                          {"kind": 1, "cls": "FunctionalExchange", "floats": [rand_label(rng)]}]}
        replay = {"source": "generated-label", "spec": spec}
        try:
            dg = gen.build(spec)
            svg = to_svg(dg)
        except Exception as e:  # noqa: BLE001
            orc.stats["render_errors"] += 1
            chk.violation(f"render-raises:label:{type(e).__name__}", f"label {lab!r}: rendering raises {e!r}", replay)
            continue
        one(f"label:{i}", dg, svg, replay)

    # ---------------- (b3) sizes: labelled boxes from far too small for their icon and label up to roomy ("rendering ANY diagram")
    for cls in ("LogicalComponent", "LogicalFunction", "Class", "Note", "Requirement"):
        for w_, h_ in ((1, 40), (5, 40), (12, 40), (20, 40), (24, 40), (30, 40), (60, 40), (60, 1), (60, 8), (3, 3)):
            spec = {"dc": None, "elems": [{"kind": 0, "cls": cls, "label": "hello small world", "size": (w_, h_), "floats": []}]}
            replay = {"source": "generated-size", "spec": spec}
            orc.stats["size_probes"] = orc.stats.get("size_probes", 0) + 1
            try:
                dg = gen.build(spec)
                svg = to_svg(dg)
            except Exception as e:  # noqa: BLE001
                orc.stats["render_errors"] += 1
                chk.violation(f"render-raises:narrow-box:{type(e).__name__}", f"a labelled {cls} box of size {w_}x{h_}: rendering raises {e!r}", replay)
                continue
            one(f"size:{cls}:{w_}x{h_}", dg, svg, replay)

    # ---------------- (c) probes for the parts of the statement that the current code refutes
    probes = [
        ("probe:symbol-fallback", {"dc": None, "elems": [{"kind": 3, "cls": "NoSuchClass"}]}, None),
        ("probe:feature-markup", {"dc": "Class Diagram Blank", "elems": [{"kind": 0, "cls": "Class", "label": "C", "feats": ["x : List<int>"]}]}, "x : List<int>"),
    ]
    for key, spec, feat in probes:
        dg = gen.build(spec)
        svg = to_svg(dg)
        sc = scan_svg(svg)
        if feat is None:
            bad = [r for r in sc["refs"] if r not in sc["ids"]]
            if bad:
                chk.violation(key, f"symbol element with an unregistered class: reference #{bad[0]} is not defined (Error symbol deployed as ErrorSymbol)",
                              {"source": "probe", "spec": spec})
        else:
            words = " ".join("".join(t.itertext()) for t in sc["root"].iter(SVG + "tspan")).split()
            if not words_match(feat, words):
                chk.violation(key, f"feature text {feat!r} is rendered as {words} (HTML-flattened: markup interpreted)", {"source": "probe", "spec": spec})
        chk.note_case(key)
    d = diagram.Diagram("x", styleclass="Logical Architecture Blank")
    d.add_element(diagram.Edge([(0, 0), (10, 10)], uuid="e1", styleclass="ComponentExchange", styleoverrides={"marker-end": "ArrowMark"}))
    sc = scan_svg(to_svg(d))
    bad = [r for r in sc["refs"] if r not in sc["ids"]]
    if bad:
        chk.violation("probe:marker-override", f"marker given as style override: #{bad[0]} referenced, only the default marker is deployed",
                      {"source": "probe", "styleoverrides": {"marker-end": "ArrowMark"}})
    chk.note_case("probe:marker-override")

    # ---------------- (d) model vs implementation
    chk.coverage.update(orc.stats)
    chk.coverage["model_cases"] = len(cases)
    chk.correspond("From V Require Import Model.SvgInst.", "w_render", cases, tag="C18_render", shard=150,
                   describe=lambda i: descs[i])
    if pr.broken and any("SvgInstP" in b or "C18.v" in b for b in pr.broken):
        # name the combinations for which the closure theorem fails on this tree
        un = lib.coq_eval("From V Require Import Model.SvgInst.", "w_unclosed", 0, timeout=300)
        if isinstance(un, list):
            names = sorted({(["box", "edge", "circle", "symbol", "box_symbol"][k], c) for _, k, c in un})
            chk.broken.append(f"reference closure (refs_closed_all) fails for {len(un)} (diagram class, kind, class) combinations: "
                              + ", ".join(f"{k}/{c}" for k, c in names[:12]))
    if cases:
        chk.samples.append({"w_render input (first generated)": cases[min(len(cases) - 1, ndiag)][0][:2],
                            "output": [cases[min(len(cases) - 1, ndiag)][1][0], cases[min(len(cases) - 1, ndiag)][1][2][:3]]})

    # _intround
    icases = []
    vals = [k + f for k in range(-40, 41) for f in (0.0, 0.25, 0.5, 0.75, 0.125, 0.4375)] + [rng.uniform(-1e4, 1e4) for _ in range(300 if quick else 5000)] \
        + [1e15 + 0.5, -1e15 - 0.5, 2.0 ** 52, 0.49999999999999994, -0.49999999999999994, -0.5, -1.5, 1e-320]
    for v in vals:
        if fractions.Fraction(v) + fractions.Fraction(1, 2) != fractions.Fraction(v + 0.5):
            continue
        icases.append((frac(v), _json_enc._intround(v)))
    chk.correspond("From V Require Import Model.SvgInst.", "w_intround", icases, tag="C18_intround")

    # word_wrap's loop with a synthetic extent (k * characters), and the XML writer's escaping
    wcases = []
    orig = helpers.extent_func
    try:
        for _ in range(300 if quick else 4000):
            k = rng.choice([1, 3, 7])
            helpers.extent_func = lambda text, *a, _k=k, **kw: (float(_k * len(text)), 10.0)
            words = ["".join(rng.choice("abcdefghij<&>") for _ in range(rng.randint(1, 9))) for _ in range(rng.randint(1, 14))]
            width = rng.choice([0, 5, 10, 20, 40, 80, 200])
            wcases.append(([k, width, words], helpers.word_wrap(" ".join(words), width)))
    finally:
        helpers.extent_func = orig
    chk.correspond("From V Require Import Model.SvgText.", "w_wrap", wcases, tag="C18_wrap")

    import svgwrite.container
    import svgwrite.text
    tcases, acases = [], []
    strs = MARKUP_LABELS + PLAIN + ["".join(xml_legal_char(rng) for _ in range(rng.randint(0, 30))) for _ in range(300 if quick else 4000)]
    for s in strs:
        t = svgwrite.text.TSpan(s).tostring()
        m = re.fullmatch(r"<tspan>(.*)</tspan>|<tspan />", t, re.S)
        if m:
            tcases.append((s, m.group(1) or ""))
        a = svgwrite.container.Group(class_=s, debug=False).tostring()
        m = re.fullmatch(r'<g class="(.*)" />', a, re.S)
        if m:
            acases.append((s, m.group(1)))
        # and back through an independent parser
        back = LX.fromstring(t.encode("utf-8")).text or ""
        if back != s.replace("\r\n", "\n").replace("\r", "\n"):
            chk.violation(f"escape:{s!r}", f"text {s!r} reads back as {back!r}", {"source": "escape", "text": s})
    chk.correspond("From V Require Import Model.SvgText.", "w_escape_text", tcases, tag="C18_esct")
    chk.correspond("From V Require Import Model.SvgText.", "w_escape_attr", acases, tag="C18_esca")

    if os.environ.get("C18_DEBUG"):
        import collections
        cnt = collections.Counter(re.sub(r":(gen|corpus|mixed|label):.*", r":\1", f.key) for f in chk.findings)
        print("C18_DEBUG finding classes:", dict(cnt), file=sys.stderr)
        seen = set()
        for f in chk.findings:
            k = re.sub(r":(gen|corpus|mixed|label):.*", r":\1", f.key)
            if k not in seen or os.environ.get("C18_DEBUG") == "all":
                seen.add(k)
                print("   ", f.key, "|", f.what[:300], file=sys.stderr)
    chk.coverage["rule"] = (
        "exhaustive over diagram classes (STYLES keys and None) x element kinds x style classes (STYLES Type.Class keys of the diagram "
        "class and __GLOBAL__, symbol registry names, port classes) x label/floating/feature shapes; overrides: "
        + ("one of the 7-entry menu per element, rotating with the seed" if quick else "all 7 menu entries")
        + "; a single-element probe for every remaining pairing of the five element kinds with every class of every STYLES table, of the "
          "symbol registry and of every set of svg/decorations.py (classes of a table under its diagram class and under none, the others under "
          "every diagram class); labels drawn from markup strings and the XML-legal character ranges; plus mixed multi-element diagrams, label stress "
          "in minimum-size boxes, all diagrams of the corpus models; non-trivial = every rendered diagram")
    chk.coverage["exhaustive"] = True
    chk.assumptions += [
        "tables of Gen/SvgTables.v come from importing /repo's capellambse in a subprocess (symbol ids/refs by parsing what each factory returns)",
        "PIL text extents, svgwrite/ElementTree serialisation and float addition (val + 0.5) are library behaviour: extents are a parameter of the "
        "wrapping theorems, escaping is a stand-in sampled each run, diagrams whose viewport makes val + 0.5 inexact are excluded from the model comparison",
        "not modelled: label geometry, text_transform overrides, description labels (RepresentationLink), check_for_vertical_overflow (oracle only)",
    ]


if __name__ == "__main__":
    lib.main("C18", run)
