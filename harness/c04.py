"""C04 — UUIDs stay unique at load, creation and save; failed creation leaves no trace."""
from __future__ import annotations

import collections
import io
import pathlib
import random
import re
import shutil
import sys
import uuid as uuidmod

sys.path.insert(0, str(pathlib.Path(__file__).resolve().parent))
import lib
import corpus
import graph
import histories
from lib import Err, err_of

UUID_RE = re.compile(rb'\bid="([0-9a-f]{8}-[0-9a-f]{4}-[0-9a-f]{4}-[0-9a-f]{4}-[0-9a-f]{12})"')


def snapshot(model, A: graph.Abstraction):
    """what save() would write + the three private indexes of every fragment"""
    out = {}
    for p, tree in model._loader.trees.items():
        buf = io.BytesIO()
        if p.suffix in graph.VISUAL:   # 2 MB each: a cheap structural digest instead of the serialization
            buf.write(repr((len(tree.root), sum(1 for _ in tree.root.iter()))).encode())
        else:
            tree.write_xml(buf)
        idc, xtc, hrs = A.index(tree)
        out[str(p)] = (buf.getvalue(), tuple(sorted(idc.items(), key=lambda kv: kv[0])), tuple(sorted(xtc.items())), tuple(sorted(hrs.items())))
    return out


def diff_snap(a, b) -> list[str]:
    d = []
    for k in a:
        for i, what in enumerate(("xml", "idcache", "xtypecache", "hrefsources")):
            if a[k][i] != b[k][i]:
                d.append(f"{k.replace(chr(0), '<primary>')}:{what}")
    return d


def plant(text: bytes, src_id: bytes, dst_id: bytes) -> bytes:
    """give the element that has id=dst_id the id src_id (first occurrence of the id attribute only)"""
    return text.replace(b'id="' + dst_id + b'"', b'id="' + src_id + b'"', 1)


def run(chk: lib.Check):
    import capellambse
    from capellambse.loader import core
    pr = chk.prove()
    quick = chk.tier == "quick"
    rng = chk.rng
    stats = collections.Counter()
    dupcases = []

    # ------------------------------------------------------------------ (a) placements of a duplicated UUID
    def try_load(path, **kw):
        try:
            return capellambse.MelodyModel(str(path), **kw)
        except core.CorruptModelError as e:
            return err_of(e)

    placements = 10 if quick else 80
    for spec0 in corpus.model_specs(chk.tier)[:2]:
        for pi in range(placements):
            with lib.scratch("c04-") as tmp:
                spec = dict(spec0)
                src = pathlib.Path(spec0["path"]).parent
                d = tmp / "model"
                shutil.copytree(src, d, ignore=shutil.ignore_patterns("*.license"))
                spec["path"] = d / pathlib.Path(spec0["path"]).name
                res = {}
                for rn, rp in (spec0.get("resources") or {}).items():
                    rd = tmp / ("res_" + rn.replace(" ", "_"))
                    shutil.copytree(rp, rd, ignore=shutil.ignore_patterns("*.license"))
                    res[rn] = str(rd)
                if res:
                    spec["resources"] = res
                sem_files = sorted(d.glob("*.capella"))
                lib_files = sorted(pathlib.Path(v) for v in res.values())
                lib_sem = [f for ld in lib_files for f in sorted(ld.glob("*.capella"))]
                # every third placement works on a FRAGMENTED copy: the two occurrences may then sit in files of different kinds
                # (.capella / .capellafragment) of the same resource
                frag_files = []
                if not res and pi % 3 == 2:
                    import fragmenter
                    from lxml import etree as _ET
                    t_ = _ET.parse(str(sem_files[0]))
                    cands_ = [e for e in t_.getroot().iter() if isinstance(e.tag, str) and e.get("id") and e.getparent() is not None and len(e) >= 3
                              and (e.get("{http://www.w3.org/2001/XMLSchema-instance}type") or "").endswith(("Pkg", "Component", "Architecture"))]
                    rng.shuffle(cands_)
                    chosen_ = sorted(cands_[:2], key=lambda e: len(list(e.iterancestors())))
                    picks_ = [(e.get("id"), ("fragments/" if i_ % 2 else "") + f"F{i_}.capellafragment") for i_, e in enumerate(chosen_)]
                    made_ = fragmenter.fragment_model(d, sem_files[0].name, pathlib.Path(spec0["path"]).name, picks_, aird_style="chain" if pi % 2 else "direct")
                    frag_files = [d / m_ for m_ in made_]
                cls = rng.choice(["same-fragment", "same-fragment"] + (["project-x-library"] * 3 if lib_sem else [])) if not frag_files else \
                    rng.choice(["main-x-fragment", "fragment-x-main", "fragment-x-fragment", "same-fragment"])
                fa = rng.choice(sem_files)
                if cls == "fragment-x-main" or (cls == "fragment-x-fragment" and frag_files):
                    fa = frag_files[0]
                ids_a = UUID_RE.findall(fa.read_bytes())
                if cls == "same-fragment":
                    if frag_files and rng.random() < 0.5:
                        fa = rng.choice(frag_files)
                        ids_a = UUID_RE.findall(fa.read_bytes())
                    fb = fa
                    ids_b = ids_a
                elif cls == "main-x-fragment":
                    fb = rng.choice(frag_files)
                    ids_b = UUID_RE.findall(fb.read_bytes())
                elif cls == "fragment-x-main":
                    fb = sem_files[0]
                    ids_b = UUID_RE.findall(fb.read_bytes())
                elif cls == "fragment-x-fragment":
                    fb = frag_files[-1]
                    ids_b = UUID_RE.findall(fb.read_bytes())
                else:
                    fb = rng.choice(lib_sem)
                    ids_b = UUID_RE.findall(fb.read_bytes())
                if len(ids_a) < 2 or len(ids_b) < 2:
                    continue
                # which element: stratified over the ROOT element of the file (first id), its first children, the last element, any
                pos = rng.choice(["root", "root", "early", "last", "any", "any"])
                ua = {"root": ids_a[0], "early": ids_a[min(len(ids_a) - 1, rng.randint(1, 4))], "last": ids_a[-1]}.get(pos) or rng.choice(ids_a)
                vpos = rng.choice(["any", "any", "any", "root", "early", "last"])
                cand_b = [x for x in ids_b if x != ua]
                ub = {"root": cand_b[0], "early": cand_b[min(len(cand_b) - 1, rng.randint(1, 4))], "last": cand_b[-1]}.get(vpos) or rng.choice(cand_b)
                stats[f"placement-position:{pos}->{vpos}"] += 1
                fb.write_bytes(plant(fb.read_bytes(), ua, ub))
                kw = {k: v for k, v in spec.items() if k not in ("name", "path")}
                stats[f"placement:{cls}"] += 1
                chk.note_case(("dup", spec0["name"], cls, ua, ub))
                r1 = try_load(spec["path"], **kw)
                if not isinstance(r1, Err):
                    chk.violation(f"dup-accepted-at-load:{cls}", f"model with UUID {ua.decode()} occurring twice ({cls}) loads without error",
                                  {"model": spec0["name"], "class": cls, "uuid": ua.decode(), "victim": ub.decode(), "file": fb.name})
                r2 = try_load(spec["path"], ignore_duplicate_uuids_and_void_all_warranties=True, **kw)
                if isinstance(r2, Err):
                    chk.violation(f"dup-override-refused:{cls}", "loading with the explicit override still fails", {"class": cls})
                else:
                    try:
                        r2.save()
                        chk.violation(f"dup-saved-without-backup-flag:{cls}", "a model loaded with the duplicate override saves without i_have_a_recent_backup",
                                      {"model": spec0["name"], "class": cls})
                    except core.CorruptModelError:
                        pass
                    try:
                        r2.save(i_have_a_recent_backup=True)
                    except Exception as e:  # noqa: BLE001
                        chk.violation(f"dup-double-override-refused:{cls}", f"save with both overrides fails: {e!r}", {"class": cls})
                    del r2
    # the duplicate check itself: model vs implementation on synthetic id sets (incl. >2 fragments)
    class FakeTree:
        def __init__(self, ids):
            self.ids = ids
        def enumerate_uuids(self):
            return set(self.ids)
    for _ in range(300 if quick else 3000):
        k = rng.randint(1, 5)
        universe = list(range(rng.randint(3, 12)))
        trees = [sorted(set(rng.sample(universe, rng.randint(0, min(4, len(universe)))))) for _ in range(k)]
        ign = rng.random() < 0.3
        fake = core.MelodyLoader.__new__(core.MelodyLoader)
        fake._MelodyLoader__ignore_uuid_dups = ign
        fake.trees = {pathlib.PurePosixPath(f"f{i}.capella"): FakeTree([str(x) for x in t]) for i, t in enumerate(trees)}
        try:
            core.MelodyLoader.check_duplicate_uuids(fake)
            out = None
        except core.CorruptModelError as e:
            out = err_of(e)
        dupcases.append(([ign, trees], out))
        # oracle: refused iff some id is in two trees (and not overridden)
        shared = any(set(trees[i]) & set(trees[j]) for i in range(k) for j in range(i + 1, k))
        if (out is None) != (ign or not shared):
            chk.violation("check_duplicate_uuids:" + ("accepts-shared-id" if out is None else "refuses-clean"),
                          f"check_duplicate_uuids on id sets {trees} (ignore={ign}) -> {out}", {"trees": trees, "ignore": ign})
    chk.correspond("From V Require Import Model.Graph.", "w_check_dups", dupcases, tag="C04_dups")

    # ------------------------------------------------------------------ (b)+(c) creation requests
    n_models = 2 if quick else 4
    n_req = 60 if quick else 500
    for spec0 in corpus.model_specs(chk.tier)[:n_models]:
        model = corpus.load(spec0)
        A = graph.Abstraction()
        prng = random.Random(f"{chk.seed}:{spec0['name']}")
        uuidmod.uuid4 = lambda prng=prng: uuidmod.UUID(int=prng.getrandbits(128), version=4)
        runner = histories.HistoryRunner(model, prng)
        for ri in range(n_req):
            # a few random successful edits in between so requests hit several reachable states
            if ri % 10 == 9:
                for _ in range(3):
                    runner.step()
            want_nested = prng.random() < 0.3
            o = runner.pick(lambda o: bool(runner.rels(o, ("direct",))) and (not want_nested or type(o).__name__ in ("DataPkg", "Class", "Union", "Collection", "Enumeration")))
            if o is None:
                continue
            rels_ = runner.rels(o, ("direct",))
            if want_nested:
                rels_ = [r for r in rels_ if r[0] in ("datatypes", "properties", "owned_properties", "literals", "owned_literals")] or rels_
            name, acc = prng.choice(rels_)
            lst = getattr(o, name)
            hints = sorted(getattr(acc, "xtypes", []) or [])
            hint = prng.choice(hints) if hints else None
            how = prng.choice(["nested-then-fail", "nested-bad"] if want_nested else ["valid", "valid-want", "badattr", "badhint", "clash", "badvalue"])
            kw: dict = {"name": f"r{ri}"}
            want = None
            existing = prng.choice(list(graph.raw_scan_ids(model._loader)))
            if how == "valid-want":
                want = str(uuidmod.uuid4())
                kw["uuid"] = want
            elif how == "badattr":
                kw["no_such_attribute_xyz"] = 1
            elif how == "badhint":
                hint = "NoSuchTypeXyz"
            elif how == "clash":
                kw["uuid"] = existing
            elif how == "badvalue":
                kw["description"] = object()
            elif how in ("nested-then-fail", "nested-bad"):
                # a class with a single-valued child role: nested creation succeeds, then a later keyword fails
                from capellambse.model import _descriptors as D
                cls = None
                # prefer a request whose class has single-valued child roles (data types, properties ...)
                cands = []
                for h2 in hints or [None]:
                    try:
                        c2 = acc._match_xtype(h2)[0] if h2 else acc._guess_xtype()[0]
                    except Exception:  # noqa: BLE001
                        continue
                    if any(isinstance(getattr(c2, an, None), D.RoleTagAccessor) and getattr(c2, an).aslist is None
                           and getattr(c2, an).classes for an in dir(c2)):
                        cands.append((h2, c2))
                if cands:
                    hint, cls = prng.choice(cands)
                roles = []
                if cls is not None:
                    for an in dir(cls):
                        a2 = getattr(cls, an, None)
                        if isinstance(a2, D.RoleTagAccessor) and a2.aslist is None and a2.classes:
                            roles.append((an, a2))
                if not roles:
                    how = "badattr"
                    kw["no_such_attribute_xyz"] = 1
                else:
                    an, a2 = prng.choice(roles)
                    nested_cls = prng.choice(a2.classes)
                    kw[an] = capellambse.model.NewObject(nested_cls.__name__, **({} if how == "nested-then-fail" else {"bogus_kw": 1}))
                    if how == "nested-then-fail":
                        kw["no_such_attribute_xyz"] = 1
            before = snapshot(model, A)
            ids_before = set(graph.raw_scan_ids(model._loader))
            desc = f"{type(o).__name__}({o.uuid}).{name}.create({hint!r}, {', '.join(f'{k}=...' for k in kw)}) [{how}]"
            try:
                new = lst.create(hint, **kw) if hint else lst.create(**kw)
                outcome = "ok"
            except Exception as e:  # noqa: BLE001
                new = None
                outcome = type(e).__name__
            stats[f"create:{how}:{outcome}"] += 1
            chk.note_case(("create", spec0["name"], how, type(o).__name__, name), nontrivial=True)
            raw = graph.raw_scan_ids(model._loader)
            if new is not None:
                # fresh and unique, honoured 'want'
                if len(raw.get(new.uuid, [])) != 1 or new.uuid in ids_before:
                    chk.violation(f"created-uuid-not-unique:{how}", f"{desc}: new object's UUID {new.uuid} occurs {len(raw.get(new.uuid, []))}x / existed before",
                                  {"model": spec0["name"], "request": desc})
                if how == "clash":
                    chk.violation("clash-accepted", f"{desc}: creation with an in-use UUID succeeded", {"model": spec0["name"], "request": desc})
                if want and new.uuid != want:
                    chk.violation("want-not-honoured", f"{desc}: requested free UUID {want}, got {new.uuid}", {"request": desc})
                try:
                    if model.by_uuid(new.uuid)._element is not new._element:
                        raise KeyError
                except KeyError:
                    chk.violation(f"created-not-indexed:{how}", f"{desc}: new object cannot be looked up", {"request": desc})
            else:
                after = snapshot(model, A)
                d = diff_snap(before, after)
                if d:
                    chk.violation(f"failed-create-leaves-trace:{how}:{','.join(sorted({x.split(':')[-1] for x in d}))}",
                                  f"{desc} raised {outcome} but changed {d}", {"model": spec0["name"], "request": desc, "changed": d, "error": outcome})
        # ---- nested creations: every (container list, class with single-valued child roles, role) combination
        from capellambse.model import _descriptors as D
        from capellambse.model import NewObject
        combos = []
        seen_combo = set()
        for o in histories._objects(model, prng, 3000):
            for name, acc in runner.rels(o, ("direct",)):
                for h2 in sorted(getattr(acc, "xtypes", []) or []):
                    try:
                        c2 = acc._match_xtype(h2)[0]
                    except Exception:  # noqa: BLE001
                        continue
                    for an in dir(c2):
                        a2 = getattr(c2, an, None)
                        if isinstance(a2, D.RoleTagAccessor) and a2.aslist is None:
                            key = (type(o).__name__, name, h2, an)
                            if key not in seen_combo:
                                seen_combo.add(key)
                                combos.append((o, name, h2, an, a2))
        prng.shuffle(combos)
        for o, name, h2, an, a2 in combos[: (25 if quick else 400)]:
            for how in ("nested-then-fail", "nested-bad", "interrupted-1", "interrupted-2", "interrupted-3", "nested-ok"):
                nested_name = prng.choice(a2.classes).__name__ if a2.classes else prng.choice(["LiteralNumericValue", "LiteralStringValue", "LiteralBooleanValue"])
                kw = {"name": "nested", an: NewObject(nested_name, **({"bogus_kw": 1} if how == "nested-bad" else {}))}
                if how == "nested-then-fail":
                    kw["no_such_attribute_xyz"] = 1
                before = snapshot(model, A)
                desc = f"{type(o).__name__}({o.uuid}).{name}.create({h2.split(':')[-1]!r}, name=..., {an}=NewObject({nested_name!r}){', no_such_attribute_xyz=1' if how == 'nested-then-fail' else ''}) [{how}]"
                # an abort that is not an Exception (Ctrl-C, SystemExit) at the k-th indexing step of the creation is a failure like any other
                loader_ = model._loader
                orig_index = loader_.idcache_index
                if how.startswith("interrupted-"):
                    k_left = [int(how.split("-")[1])]

                    def interrupting_index(*a_, **k_):
                        k_left[0] -= 1
                        if k_left[0] == 0:
                            raise KeyboardInterrupt("injected by the harness")
                        return orig_index(*a_, **k_)
                    loader_.idcache_index = interrupting_index
                try:
                    new = getattr(o, name).create(h2, **kw)
                    outcome = "ok"
                except Exception as e:  # noqa: BLE001
                    new, outcome = None, type(e).__name__
                except KeyboardInterrupt as e:
                    if "injected by the harness" not in str(e):
                        raise
                    new, outcome = None, "KeyboardInterrupt"
                finally:
                    if how.startswith("interrupted-"):
                        del loader_.idcache_index       # back to the class's method
                stats[f"create:{how}:{outcome}"] += 1
                chk.note_case(("nested", spec0["name"], how, type(o).__name__, name, h2, an))
                if new is None:
                    d = diff_snap(before, snapshot(model, A))
                    if d:
                        chk.violation(f"failed-create-leaves-trace:{how}:{','.join(sorted({x.split(':')[-1] for x in d}))}",
                                      f"{desc} raised {outcome} but changed {d}", {"model": spec0["name"], "request": desc, "changed": d, "error": outcome})
                else:
                    raw = graph.raw_scan_ids(model._loader)
                    for e in new._element.iter():
                        if e.get("id") and len(raw.get(e.get("id"), [])) != 1:
                            chk.violation("created-uuid-not-unique:nested", f"{desc}: id {e.get('id')} occurs {len(raw.get(e.get('id'), []))}x", {"request": desc})
        del model, runner
    chk.coverage.update({
        "stats": dict(sorted(stats.items())),
        "rule": "(a) a UUID is planted twice in scratch copies (same fragment / project x library resource), load+save under all override combinations; "
                "check_duplicate_uuids itself on random id-set families of up to 5 fragments vs the Coq model and a pairwise-intersection oracle; "
                "(b,c) creation requests of 8 classes (valid, requested uuid, unknown attribute, unknown type, clashing uuid, bad value, nested creation followed by a "
                "failing keyword, failing nested creation) on random containment lists in states reached by random edits; after a failure the serialized bytes and all "
                "three private indexes of every fragment are compared with the state before",
    })
    chk.samples.append(dict(list(stats.items())[:6]))
    chk.assumptions += ["duplicates are planted by textual replacement of id=\"...\" in scratch copies of the corpus files"]


if __name__ == "__main__":
    lib.main("C04", run)
