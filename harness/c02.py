"""C02 — A saved model reloads to exactly what was in memory."""
from __future__ import annotations

import hashlib
import io
import logging
import pathlib
import random
import shutil
import sys
import time

sys.path.insert(0, str(pathlib.Path(__file__).resolve().parent))
import lib
import xmlenc
from lib import Err, err_of

import lxml.etree as ET

import os
RUN = os.getpid()      # case-file tags are per process: concurrent runs of the same check do not collide
IMP = "From V Require Import Model.SerExs Model.SerNs."
XSI = "http://www.w3.org/2001/XMLSchema-instance"
XMI = "http://www.omg.org/XMI"
KNOWN = {"cdata": "text-cdata-end", "blank": "blank-only-leaf-text"}
PIECES = ['"', "&", "<", ">", "'", "\t", "\n", "\r", "\r\n", "\x7f", " ", "\u0085", " ", " ", "\U0001F600", "\U00010000",
          "\U0010FFFF", "�", "퟿", "", "é", "]]>", "]]", "&amp;", "&lt;", "&#x41;", "&#65;", "<![CDATA[", "<!--", "-->", "<?x?>",
          "a", "Zz", "0", " ", "  ", "name", "x y"]
SEMANTIC = {".capella", ".capellafragment", ".melodyfragment", ".melodymodeller"}


XSI_TYPE = "{http://www.w3.org/2001/XMLSchema-instance}type"


def legal_string(r: random.Random, neutral: frozenset = frozenset()) -> str:
    mode = r.random()
    if mode < 0.12:
        s = r.choice([" ", "  ", "\t", "\n", "\r\n", " ", " \n ", " "])          # whitespace only
    elif mode < 0.2:
        s = r.choice(["", "a", "]]>", "a ]]> b", "]]]>>", " lead", "trail ", "\nlead", "trail\n", "\ttab\t"])
    else:
        s = "".join(r.choice(PIECES) for _ in range(r.randrange(1, 9)))
    if "cdata" in neutral:
        s = s.replace("]]>", "]]x")
    if "blank" in neutral and s and not s.strip():
        s = "x" + s
    return s


# ------------------------------------------------------------------ independent tree snapshot / comparison
def freeze(el):
    if not isinstance(el.tag, str):
        return ("<!---->", el.text or "", (), None, None, ())
    pref = {}
    for k, v in el.items():
        if k in (f"{{{XSI}}}type", f"{{{XMI}}}type") and ":" in v:
            p = v.split(":", 1)[0]
            pref[p] = el.nsmap.get(p)
    # formatting whitespace is not information: a run of XML blanks between two tags (a tail, or the text in front of the first child
    # element) reads as None.  libxml2 drops such runs under remove_blank_text only while they are shorter than its 300-character
    # buffer, so below ~150 levels of nesting the indentation written by save() comes back as tails; the writer ignores blank tails
    # (a reloaded deep model saves byte-identically).  Leaf text is compared verbatim.
    text, tail = el.text or None, el.tail or None
    if tail is not None and not tail.strip(" \t\r\n"):
        tail = None
    if text is not None and len(el) and not text.strip(" \t\r\n"):
        text = None
    return (el.tag, tuple(sorted(el.items())), tuple(sorted(pref.items())), text, tail,
            tuple([freeze(c) for c in el]))      # a list comprehension is inlined: no C frame per level


def short(s: str, n: int = 400) -> str:
    return s if len(s) <= n else s[: n // 3] + " [...] " + s[-(n - n // 3 - 7):]


class deep_recursion:
    """the snapshot/compare functions recurse over (deliberately deep) trees; the interpreter's limit is raised around the oracle
    only, never around calls into the implementation (whose own behaviour under the default limit is part of what is observed)"""
    def __enter__(self):
        self.old = sys.getrecursionlimit()
        sys.setrecursionlimit(max(self.old, 100_000))
    def __exit__(self, *a):
        sys.setrecursionlimit(self.old)


def frozen_doc(root):
    return ([c.text for c in reversed(list(root.itersiblings(preceding=True)))], freeze(root), [c.text for c in root.itersiblings()])


def frozen_diff(a, b, path="", *, check_ns_before=False, out=None):
    """first differences between two frozen elements (a = memory, b = reloaded)"""
    out = [] if out is None else out
    if len(out) >= 4:
        return out
    here = f"{path}/{a[0].rsplit('}', 1)[-1]}"
    if a[0] != b[0]:
        out.append(f"{here}: tag {a[0]!r} != {b[0]!r}")
        return out
    if a[1] != b[1]:
        da, db = dict(a[1]), dict(b[1])
        ks = sorted(k for k in set(da) | set(db) if da.get(k) != db.get(k))
        out.append(f"{here}: attribute {ks[0]!r}: {da.get(ks[0])!r} != {db.get(ks[0])!r}")
    for p, u in b[2]:
        if u is None:
            out.append(f"{here}: prefix {p!r} used by the element's type is not declared after reload")
        elif dict(a[2]).get(p) not in (None, u):
            out.append(f"{here}: prefix {p!r} bound to {dict(a[2]).get(p)!r} in memory, {u!r} after reload")
    if a[3] != b[3]:
        out.append(f"{here}: text {a[3]!r} != {b[3]!r}")
    if a[4] != b[4]:
        out.append(f"{here}: tail {a[4]!r} != {b[4]!r}")
    if len(a[5]) != len(b[5]):
        out.append(f"{here}: {len(a[5])} children != {len(b[5])}: {[c[0] for c in a[5]][:6]} vs {[c[0] for c in b[5]][:6]}")
        return out
    for i, (x, y) in enumerate(zip(a[5], b[5])):
        frozen_diff(x, y, f"{here}[{i}]", out=out)
        if len(out) >= 4:
            break
    return out


# ------------------------------------------------------------------ edit operations through the public API
def layer_of(model, r):
    for name in r.sample(["la", "sa", "oa", "pa"], 4):
        try:
            layer = getattr(model, name)
            if layer is not None:
                return name, layer
        except Exception:  # noqa: BLE001
            continue
    return None, None


def is_primary(model, obj) -> bool:
    """save() writes the primary resource only (by design); objects of referenced libraries are left alone"""
    try:
        return model._loader.find_fragment(obj._element).parts[0] == "\0"
    except Exception:  # noqa: BLE001
        return False


def pick(model, r, *classes):
    for cls in r.sample(list(classes), len(classes)):
        try:
            objs = model.search(cls)
        except Exception:  # noqa: BLE001
            continue
        n = len(objs)
        for _ in range(min(n, 8)):
            o = objs[r.randrange(n)]
            if is_primary(model, o):
                return o
    return None


VIEWPOINTS = ["org.polarsys.kitalpha.vp.requirements", "org.polarsys.capella.vp.requirements", "org.polarsys.capella.vp.ms",
              "org.polarsys.capella.vp.price", "org.polarsys.capella.vp.mass", "org.polarsys.capella.vp.perfo", "org.polarsys.capella.basic.vp"]
FILTERS = ["hide.functional.exchanges.names.filter", "show.exchange.items.on.functional.exchanges.filter", "hide.component.ports.filter",
           "collapse.pure.sub.functions.filter", "hide.allocated.functional.exchanges.filter", "ModelExtensionFilter"]
FUNC = ("LogicalFunction", "SystemFunction", "OperationalActivity", "PhysicalFunction")
COMP = ("LogicalComponent", "SystemComponent", "PhysicalComponent", "Entity")


def fragment_trees(model, *, subdir_only=False):
    """the semantic fragment files of the primary resource other than the main file: [(tree key, ModelFile)]"""
    out = []
    for f, t in model._loader.trees.items():
        if f.parts[0] == "\0" and f.suffix == ".capellafragment" and (len(f.parts) > 2 or not subdir_only):
            out.append((f, t))
    return out


def do_frag_edit(model, r: random.Random, neutral, created: list, log: list, key=None):
    """an edit INSIDE a fragment file (by default one that lives in a sub-directory): rename / describe an element of it, its root, or
    create / delete a child below one of its elements"""
    fts = fragment_trees(model, subdir_only=True) or fragment_trees(model)
    if key is not None:
        fts = [(f, t) for f, t in fts if f == key] or fts
    if not fts:
        return
    f, t = fts[r.randrange(len(fts))]
    S = lambda: legal_string(r, neutral)
    ids = [e.get("id") for e in t.root.iter() if isinstance(e.tag, str) and e.get("id") and e.get("href") is None
           and (e.get(f"{{{XSI}}}type") or e is t.root)]
    if not ids:
        return
    mode = r.random()
    for _ in range(12):
        uid = t.root.get("id") if mode < 0.2 and t.root.get("id") else ids[r.randrange(len(ids))]
        try:
            o = model.by_uuid(uid)
        except Exception:  # noqa: BLE001
            continue
        cls = type(o)
        if mode < 0.7:
            if not all(hasattr(cls, a) for a in ("name", "description", "summary")):
                continue
            attr = r.choice(["name", "summary", "description"])
            v = S()
            log.append(({"name": "set_name", "summary": "set_summary", "description": "set_desc"}[attr], uid, v))
            log.append(("in_fragment", str(pathlib.PurePosixPath(*f.parts[1:]))))
            setattr(o, attr, v)
            return
        for rel in r.sample(["functions", "components", "constraints", "property_values", "packages", "classes", "capabilities"], 7):
            lst = getattr(o, rel, None)
            if lst is None or not hasattr(lst, "create"):
                continue
            try:
                n = lst.create("StringPropertyValue", name=S(), value=S()) if rel == "property_values" else lst.create(name=S())
            except Exception:  # noqa: BLE001
                continue
            log.append("create_in_fragment")
            log.append(("in_fragment", str(pathlib.PurePosixPath(*f.parts[1:]))))
            created.append(n)
            if mode > 0.92:
                lst.remove(n)
                created.pop()
                log.append("delete_in_fragment")
            return


def do_op(model, r: random.Random, neutral, created: list, log: list):
    if fragment_trees(model) and r.random() < 0.35:
        return do_frag_edit(model, r, neutral, created, log)
    op = r.choice(["set_name", "set_name", "set_desc", "set_summary", "create_fn", "create_comp", "create_constraint", "create_class",
                   "create_pv", "create_scenario", "create_reqmodule", "delete", "move", "ref_set", "spec_set", "spec_set", "spec_lang", "spec_del",
                   "create_exchange", "set_root", "set_root",
                   # operations that edit the OTHER files of the primary resource: metadata (.afm) and visual (.aird/.airdfragment)
                   "activate_vp", "activate_vp", "diag_name", "diag_desc", "diag_filter", "diag_filter"])
    S = lambda: legal_string(r, neutral)
    log.append(op)
    if op in ("set_name", "set_desc", "set_summary"):
        o = r.choice(created) if created and r.random() < 0.5 else pick(model, r, *FUNC, *COMP, "Constraint", "Class", "FunctionalExchange")
        if o is None:
            return
        attr = {"set_name": "name", "set_desc": "description", "set_summary": "summary"}[op]
        v = S()
        setattr(o, attr, v)
        log[-1] = (op, o.uuid, v)
    elif op == "set_root":
        # the element at the top of a fragment (the Project, the root of a .capellafragment), reached through the lookup functions:
        # save() may have replaced exactly these elements (namespace map of a root cannot be edited in place)
        tops = []
        for f, t in model._loader.trees.items():
            if f.parts[0] == "\0" and f.suffix in SEMANTIC:
                e = t.root if t.root.get("id") else next((c for c in t.root if isinstance(c.tag, str) and c.get("id")), None)
                if e is not None:
                    tops.append(e.get("id"))
        if not tops:
            return
        uid = r.choice(tops)
        o = model.by_uuid(uid)
        if r.random() < 0.5:
            same = [x for x in model.search(type(o)) if x.uuid == uid]
            o = same[0] if same else o
        attr = r.choice(["name", "summary", "description"])
        v = S()
        setattr(o, attr, v)
        log[-1] = ({"name": "set_name", "summary": "set_summary", "description": "set_desc"}[attr], uid, v)
    elif op == "activate_vp":
        have = dict(model.referenced_viewpoints())
        mode = r.random()
        if mode < 0.45:
            name = r.choice(VIEWPOINTS)
        elif mode < 0.6 and have:
            name = r.choice(sorted(have))                      # already active: same version is a no-op, another one is refused
        else:
            name = "vp." + S()
        version = have[name] if name in have and r.random() < 0.5 else r.choice(["0.12.2", "1.0.0", "5.2.0", "0", "1.2.3.qualifier", S()])
        log[-1] = (op, name, version)
        model.activate_viewpoint(name, version)
    elif op in ("diag_name", "diag_desc", "diag_filter"):
        ds = [d for d in model.diagrams if is_primary(model, d)]
        if not ds:
            return
        d = ds[r.randrange(len(ds))]
        if op == "diag_name":
            v = S()
            d.name = v
            log[-1] = (op, d.uuid, v)
        elif op == "diag_desc":
            v = S()
            d.description = v
            log[-1] = (op, d.uuid, v)
        else:
            cur = sorted(d.filters)
            if cur and r.random() < 0.4:
                d.filters.discard(r.choice(cur))
            else:
                d.filters.add(r.choice(FILTERS + ["f." + "".join(r.choice("abcXYZ .-_09") for _ in range(r.randrange(1, 12)))]))
            log[-1] = (op, d.uuid, sorted(d.filters))
    elif op == "create_fn":
        p = pick(model, r, *FUNC)
        o = p.functions.create(name=S()) if hasattr(p, "functions") else p.activities.create(name=S())
        created.append(o)
    elif op == "create_comp":
        p = pick(model, r, *COMP)
        o = (p.components if hasattr(p, "components") else p.entities).create(name=S())
        created.append(o)
    elif op == "create_constraint":
        p = pick(model, r, *FUNC, *COMP)
        created.append(p.constraints.create(name=S()))
    elif op == "create_class":
        _, layer = layer_of(model, r)
        c = layer.data_package.classes.create(name=S())
        c.properties.create(name=S())
        created.append(c)
    elif op == "create_pv":
        p = pick(model, r, *FUNC, *COMP)
        created.append(p.property_values.create("StringPropertyValue", name=S(), value=S()))
    elif op == "create_scenario":        # capability involvement: an element typed in the interaction namespace
        lname, layer = layer_of(model, r)
        caps = layer.capability_package.capabilities
        cap = caps[r.randrange(len(caps))] if len(caps) and r.random() < 0.5 else caps.create(name=S())
        f = pick(model, r, {"la": "LogicalFunction", "sa": "SystemFunction", "oa": "OperationalActivity", "pa": "PhysicalFunction"}[lname])
        if f is not None:
            (cap.involved_functions if hasattr(cap, "involved_functions") else cap.involved_activities).append(f)
        created.append(cap)
    elif op == "create_reqmodule":       # needs the CapellaRequirements namespace
        _, layer = layer_of(model, r)
        mod = layer.requirement_modules.create(name=S())
        mod.requirements.create(name=S(), long_name=S())
        created.append(mod)
    elif op == "create_exchange":
        a, b = pick(model, r, "LogicalFunction", "SystemFunction"), pick(model, r, "LogicalFunction", "SystemFunction")
        if a is None or b is None or type(a) is not type(b):
            return
        pa, pb = a.outputs.create(name=S()), b.inputs.create(name=S())
        created.append(a.parent.exchanges.create(name=S(), source=pa, target=pb) if hasattr(a.parent, "exchanges") else pa)
    elif op == "delete":
        o = created.pop(r.randrange(len(created))) if created and r.random() < 0.6 else pick(model, r, *FUNC, "Constraint", "Class")
        if o is None or o.parent is None or type(o.parent).__name__.endswith("Architecture"):
            return
        for attr in ("functions", "activities", "components", "constraints", "classes", "property_values", "scenarios"):
            lst = getattr(o.parent, attr, None)
            if lst is not None and o in lst:
                ids = [e.get("id") for e in o._element.iter() if isinstance(e.tag, str) and e.get("id")]
                lst.remove(o)
                created[:] = [c for c in created if c is not o]
                log[-1] = ("delete", ids[0] if ids else None, ids[1:41])
                return
    elif op == "move":
        a, b = pick(model, r, *FUNC), pick(model, r, *FUNC)
        if a is None or b is None or a is b or type(a) is not type(b) or a.parent is None:
            return
        anc = b
        while anc is not None and hasattr(anc, "uuid"):
            if anc.uuid == a.uuid:
                return
            anc = getattr(anc, "parent", None)
        (b.functions if hasattr(b, "functions") else b.activities).append(a)
    elif op == "ref_set":
        c = pick(model, r, "Constraint")
        if c is None:
            return
        c.constrained_elements = [x for x in (pick(model, r, *FUNC), pick(model, r, *COMP)) if x is not None]
    elif op in ("spec_set", "spec_lang", "spec_del"):
        cs = [c for c in model.search("Constraint") if is_primary(model, c)]
        r.shuffle(cs)
        for c in cs[:40]:
            try:
                sp = c.specification
            except AttributeError:
                continue
            langs = list(sp)
            if op == "spec_set":
                k = r.choice([x for x in langs if x != "capella:linkedText"] or ["Python"])
                v = S()
                sp[k] = v
                log[-1] = (op, c.uuid, k, v)
            elif op == "spec_lang":
                k, v = r.choice(["Python", "OCL", S()]), S()
                sp[k] = v
                log[-1] = (op, c.uuid, k, v)
            elif langs:
                del sp[r.choice(langs)]
            return


# ------------------------------------------------------------------ one history
class Outcome:
    def __init__(self):
        self.problems: list[str] = []
        self.ops: list = []
        self.rejected: list = []
        self.ns_cases: list = []
        self.file_cases: list = []
        self.created = 0
        self.strings: list[str] = []
        self.kinds: dict = {}
        self.extremes: dict = {}
        self.frag: dict = {}


def semantic_inputs(loader, core, helpers, ns_mod):
    """inputs of ModelFile.update_namespaces for every semantic fragment, taken before save()"""
    vps = dict(loader.referenced_viewpoints())
    res = {}
    for fname, frag in loader.trees.items():
        if frag.fragment_type != core.FragmentType.SEMANTIC:
            continue
        xs = []
        for el in frag.root.iter():
            xt = el.get(f"{{{XSI}}}type") or el.get(f"{{{XMI}}}type")
            if not xt:
                if not isinstance(el.tag, str) or not ET.QName(el).namespace:
                    continue
                xt = f"{ns_mod.get_namespace_prefix(ET.QName(el).namespace)}:{ET.QName(el).localname}"
            ns = xt.partition(":")[0]
            xs.append([xt, el.nsmap.get(ns)])
        res[fname] = ([[k or "", v] for k, v in frag.root.nsmap.items()], [[k, v] for k, v in vps.items()], xs, frag.root)
    return res


def do_directed(model, kind: str, value: str, index: int, log: list, created: list):
    if kind in ("spec_body", "spec_lang"):
        n = 0
        for c in model.search("Constraint"):
            try:
                sp = c.specification
            except AttributeError:
                continue
            if n == index:
                if kind == "spec_body":
                    sp["Python"] = value
                    log.append(("spec_set", c.uuid, "Python", value))
                else:
                    sp[value] = "body of " + repr(value)
                    log.append(("spec_lang", c.uuid, value, "x"))
                return
            n += 1
    elif kind == "name":
        objs = model.search("LogicalFunction", "SystemFunction")
        o = objs[index % len(objs)]
        o.name = value
        o.description = value
        log.append(("set_name", o.uuid, value))
    elif kind == "deep":
        # value = "<container>:<levels>": a chain of creations, each inside the previous one
        where, _, n = value.partition(":")
        if where == "fn":
            o = model.la.root_function
            step = lambda o, i: o.functions.create(name=f"level {i}")
        elif where == "comp":
            o = model.la.root_component
            step = lambda o, i: o.components.create(name=f"level {i}")
        elif where == "pkg":
            o = model.la.data_package
            step = lambda o, i: o.packages.create(name=f"level {i}")
        else:
            o = model.sa.root_function
            step = lambda o, i: o.functions.create(name=f"level {i}")
        for i in range(int(n)):
            o = step(o, i)
        created.append(o)
        log.append(("deep", where, int(n), o.uuid))
    elif kind == "long":
        # value = "<place>:<chars>:<alphabet>": one very long value in an attribute or in element text
        where, n, alpha = value.split(":", 2)
        n = int(n)
        big = (alpha * (n // len(alpha) + 1))[:n]
        if where == "pv":
            o = model.la.root_component.property_values.create("StringPropertyValue", name="generated", value=big)
        elif where == "desc":
            o = model.la.root_function
            o.description = big
        elif where == "name":
            o = model.la.root_function.functions.create(name=big)
        else:   # element text: the body of an opaque expression (they cannot be created through the API: the first existing one)
            o = None
            for c in model.search("Constraint"):
                try:
                    c.specification
                except AttributeError:
                    continue
                if is_primary(model, c):
                    o = c
                    break
            if o is None:
                return
            o.specification["Python"] = big
        log.append(("long", where, n, o.uuid, hashlib.sha256(big.encode()).hexdigest()))
    elif kind == "involve":
        cap = model.la.capability_package.capabilities.create(name=value)
        f = model.la.root_function.functions.create(name=value)
        cap.involved_functions.append(f)
        mod = model.la.requirement_modules.create(name=value)
        mod.requirements.create(name=value, long_name=value)
        created += [cap, f, mod]
        log.append("involve")


def run_history(spec, seed: int, neutral: frozenset, skip_ops: frozenset, *, tier: str, want_corr: bool, directed=()) -> Outcome:
    import capellambse
    from capellambse.loader import core
    from capellambse import helpers
    import capellambse._namespaces as ns_mod
    out = Outcome()
    r = random.Random(seed)
    with lib.scratch("c02-") as tmp:
        src_dir = spec["path"].parent
        shutil.copytree(src_dir, tmp / src_dir.name)
        kw = {}
        if "resources" in spec:
            kw["resources"] = {}
            for k, v in spec["resources"].items():
                shutil.copytree(v, tmp / k)
                kw["resources"][k] = str(tmp / k)
        entry = tmp / src_dir.name / spec["path"].name
        mroot = tmp / src_dir.name
        if spec.get("frag"):
            # the same model in Capella's fragmented layout: architecture layers / packages moved to .capellafragment files in
            # sub-directories (harness/fragmenter.py; layout drawn from the history's seed, so re-runs of a history see the same files)
            import c01
            import fragmenter
            fr = random.Random(seed ^ 0x5EED)
            mains = sorted(mroot.glob("*.capella"))
            picks, pinfo = c01.choose_picks(fr, mains[0], 3) if len(mains) == 1 else ([], {})
            style = "chain" if fr.random() < 0.75 else "direct"
            made = fragmenter.fragment_model(mroot, mains[0].name, spec["path"].name, picks, aird_style=style) if picks else []
            out.frag = {"fragment_files": len(made), "in_sub_directory": sum("/" in f for f in made), "nested": pinfo.get("nested", 0),
                        "picks": picks, "aird_style": style, "edits_in_fragments": 0, "edits_in_sub_directory_fragments": 0}
        model = capellambse.MelodyModel(str(entry), **kw)
        created: list = []
        rounds = r.choice([1, 1, 2, 3])
        opno = 0
        for i, (kind, value) in enumerate(directed):
            if "cdata" in neutral:
                value = value.replace("]]>", "]]x")
            if "blank" in neutral and value and not value.strip():
                value = "x" + value
            try:
                do_directed(model, kind, value, i, out.ops, created)
            except Exception as e:  # noqa: BLE001
                out.rejected.append((-i - 1, kind, type(e).__name__))
        for rnd in range(rounds):
            if spec.get("frag") and not directed:
                # at least one edit inside every fragment file in every round (sub-directory ones included)
                for fkey, _t in fragment_trees(model):
                    opno += 1
                    opseed = r.getrandbits(40)
                    if opno in skip_ops:
                        continue
                    before = len(out.ops)
                    try:
                        do_frag_edit(model, random.Random(opseed), neutral, created, out.ops, key=fkey)
                    except Exception as e:  # noqa: BLE001
                        out.rejected.append((opno, out.ops[-1] if len(out.ops) > before else "?", type(e).__name__))
            for _ in range(r.randrange(1, 8 if tier == "quick" else 14) if not directed else 0):
                opno += 1
                opseed = r.getrandbits(40)
                if opno in skip_ops:
                    continue
                before = len(out.ops)
                try:
                    do_op(model, random.Random(opseed), neutral, created, out.ops)
                except Exception as e:  # noqa: BLE001 — the API refused the edit
                    out.rejected.append((opno, out.ops[-1] if len(out.ops) > before else "?", type(e).__name__))
            # ---- save
            loader = model._loader
            primary = {f: t for f, t in loader.trees.items() if f.parts[0] == "\0"}
            with deep_recursion():
                snap = {f: frozen_doc(t.root) for f, t in primary.items()}
            ns_in = semantic_inputs(loader, core, helpers, ns_mod) if want_corr else {}
            disk_before = sorted(p_.relative_to(mroot).as_posix() for p_ in mroot.rglob("*") if p_.is_file())
            try:
                model.save()
                saved = True
            except Exception as e:  # noqa: BLE001
                saved = False
                save_err = e
            for fname, (old, vps, xs, old_root) in ns_in.items():
                frag = loader.trees[fname]
                if not saved:
                    outv = err_of(save_err)
                elif frag.root is old_root:
                    outv = None
                else:
                    outv = [[k or "", v] for k, v in frag.root.nsmap.items()]
                out.ns_cases.append(([old, vps, xs], outv))
            if not saved:
                # refusing to save is allowed only as the documented CorruptModelError; nothing must have been written
                if type(save_err).__name__ != "CorruptModelError":
                    out.problems.append(f"save() raises {type(save_err).__name__}: {str(save_err)[:200]}")
                break
            with deep_recursion():
                after = {f: frozen_doc(t.root) for f, t in primary.items()}
            # ---- the files on disk: save() writes every file of the primary resource where the model refers to it, and nothing else
            disk_after = sorted(p_.relative_to(mroot).as_posix() for p_ in mroot.rglob("*") if p_.is_file())
            if disk_after != disk_before:
                out.problems.append(f"save() changed the set of files on disk: new {sorted(set(disk_after) - set(disk_before))}, "
                                    f"missing {sorted(set(disk_before) - set(disk_after))}")
            for f in primary:
                rel_ = pathlib.PurePosixPath(*f.parts[1:]).as_posix()
                if rel_ not in disk_after:
                    out.problems.append(f"the loader holds {rel_!r}, which is not on disk at that path after save()")
            # ---- reload with a fresh model
            try:
                m2 = capellambse.MelodyModel(str(entry), **kw)
            except Exception as e:  # noqa: BLE001
                out.problems.append(f"reload fails: {type(e).__name__}: {str(e)[:200]}")
                break
            # every file the loader holds for the primary resource (semantic, visual, metadata) is there again
            re_files = {f for f in m2._loader.trees if f.parts[0] == "\0"}
            if re_files != set(primary):
                out.problems.append(f"files of the primary resource differ after reload: only in memory {sorted(map(str, set(primary) - re_files))}, "
                                    f"only reloaded {sorted(map(str, re_files - set(primary)))}")
            kinds = {}
            for f in primary:
                kinds[f.suffix] = kinds.get(f.suffix, 0) + 1
            out.kinds = kinds
            # the metadata as an independent raw scan of the in-memory .afm vs. the reloaded model's answers
            mem_vps = sorted((e.get("vpId"), e.get("version")) for f, t in primary.items() if f.suffix == ".afm"
                             for e in t.root.iter("viewpointReferences"))
            try:
                got_vps = sorted(dict(m2.referenced_viewpoints()).items())
                info_vps = sorted(dict(m2.info.viewpoints).items())
            except Exception as e:  # noqa: BLE001
                got_vps = info_vps = f"{type(e).__name__}: {e}"
            if len({k for k, _ in mem_vps}) == len(mem_vps) and (got_vps != mem_vps or info_vps != mem_vps):
                out.problems.append(f"viewpoints: in memory {mem_vps}, referenced_viewpoints() after reload {got_vps}, info.viewpoints {info_vps}")
            for f, t in m2._loader.trees.items():
                if f.parts[0] != "\0":
                    continue
                # independent namespace oracle: all versioned Capella namespaces of one root carry one version
                import re as _re
                vers = {}
                for p_, u_ in t.root.nsmap.items():
                    mm = _re.match(r"^http://www\.polarsys\.org/capella/(?:core|common)/.*/(\d+(?:\.\d+)*)$", u_ or "")
                    if mm:
                        vers.setdefault(mm.group(1), []).append(p_)
                if len(vers) > 1:
                    out.problems.append(f"{f.name}: namespace versions disagree after save: { {k: v[:2] for k, v in vers.items()} }")
                with deep_recursion():
                    fz = frozen_doc(t.root)
                for label, mem in (("memory before save", snap.get(f)), ("memory after save", after.get(f))):
                    if mem is None:
                        out.problems.append(f"{f}: fragment not in memory")
                        continue
                    if mem[0] != fz[0] or mem[2] != fz[2]:
                        out.problems.append(f"{f}: comments around the root differ ({label})")
                    with deep_recursion():
                        d = frozen_diff(mem[1], fz[1])
                    if d:
                        out.problems.append(f"{f.name} [{label}]: " + "; ".join(short(x, 700) for x in d[:2]))
                        break
            # queries answer the same: "all objects of class X" for every class that occurs (the local names of all xsi:type
            # values in the in-memory trees, read by a raw scan), and the lookup by id of everything a deletion removed
            cls_names = sorted({(e.get(XSI_TYPE) or "").rpartition(":")[2] for t in primary.values() for e in t.root.iter()
                                if isinstance(e.tag, str) and e.get(XSI_TYPE)} | set(FUNC) | set(COMP) | {"Constraint", "Class", "Property"})
            asked = 0
            for cn in cls_names:
                def census(m_, cn=cn):
                    try:
                        return sorted(o._element.get("id") or "" for o in m_.search(cn))
                    except Exception as e:  # noqa: BLE001
                        return f"{type(e).__name__}"
                a, b = census(model), census(m2)
                asked += 1
                if a != b:
                    if isinstance(a, str) or isinstance(b, str):
                        out.problems.append(f"search({cn!r}): in memory {short(str(a), 80)}, after reload {short(str(b), 80)}")
                    else:
                        out.problems.append(f"search({cn!r}): {len(a)} objects in memory, {len(b)} after reload; only in memory "
                                            f"{sorted(set(a) - set(b))[:4]}, only after reload {sorted(set(b) - set(a))[:4]}")
                    break
            out.extremes["classes_queried"] = max(out.extremes.get("classes_queried", 0), asked)
            for entry_ in out.ops:
                if isinstance(entry_, tuple) and entry_[0] == "delete":
                    for uid in [entry_[1], *entry_[2]]:
                        def found(m_, uid=uid):
                            try:
                                return m_.by_uuid(uid)._element.get("id") == uid
                            except KeyError:
                                return "KeyError"
                        if uid and found(model) != found(m2):
                            out.problems.append(f"by_uuid({uid!r}) after its deletion: in memory {found(model)}, after reload {found(m2)}")
                            break
            # queries answer the same: the objects touched in this history
            for entry_ in out.ops:
                if isinstance(entry_, tuple) and entry_[0] in ("set_name", "set_desc", "set_summary"):
                    _, uid, v = entry_
                    try:
                        a, b = model.by_uuid(uid), m2.by_uuid(uid)
                        for attr in ("name", "description", "summary"):
                            if str(getattr(a, attr)) != str(getattr(b, attr)):
                                out.problems.append(f"{uid}.{attr}: {str(getattr(a, attr))!r} in memory, {str(getattr(b, attr))!r} after reload")
                    except KeyError:
                        pass
                elif isinstance(entry_, tuple) and entry_[0] == "deep":
                    _, where, n, uid = entry_
                    try:
                        el = m2._loader[uid]
                        chain = 0
                        while el is not None and el.get("name", "").startswith("level "):
                            chain += 1
                            el = el.getparent()
                        b = m2.by_uuid(uid)
                        if chain != n or b.name != f"level {n - 1}":
                            out.problems.append(f"deep nesting ({where}): {n} levels created, {chain} levels above the innermost element after reload, its name {b.name!r}")
                        out.extremes[f"deep:{where}"] = max(out.extremes.get(f"deep:{where}", 0), sum(1 for _ in m2._loader[uid].iterancestors()) + 1)
                    except KeyError:
                        out.problems.append(f"deep nesting ({where}): innermost element {uid} not found after reload")
                elif isinstance(entry_, tuple) and entry_[0] == "long":
                    _, where, n, uid, digest = entry_
                    try:
                        b = m2.by_uuid(uid)
                        got = {"pv": lambda: b.value, "desc": lambda: b.description, "name": lambda: b.name, "text": lambda: b.specification["Python"]}[where]()
                        got = str(got)
                        if len(got) != n or hashlib.sha256(got.encode()).hexdigest() != digest:
                            out.problems.append(f"long value ({where}): {n} characters written, {len(got)} read back after reload (sha256 {'same' if hashlib.sha256(got.encode()).hexdigest() == digest else 'differs'})")
                        out.extremes[f"long:{where}"] = max(out.extremes.get(f"long:{where}", 0), n)
                    except KeyError:
                        out.problems.append(f"long value ({where}): element {uid} not found after reload")
                elif isinstance(entry_, tuple) and entry_[0] in ("diag_name", "diag_desc", "diag_filter") and len(entry_) == 3:
                    _, uid, v = entry_
                    try:
                        a, b = model.diagrams.by_uuid(uid), m2.diagrams.by_uuid(uid)
                        for attr in ("name", "description"):
                            if str(getattr(a, attr)) != str(getattr(b, attr)):
                                out.problems.append(f"diagram {uid}.{attr}: {str(getattr(a, attr))!r} in memory, {str(getattr(b, attr))!r} after reload")
                        if sorted(a.filters) != sorted(b.filters):
                            out.problems.append(f"diagram {uid}.filters: {sorted(a.filters)!r} in memory, {sorted(b.filters)!r} after reload")
                    except KeyError:
                        pass
                elif isinstance(entry_, tuple) and entry_[0] in ("spec_set", "spec_lang"):
                    _, uid, k, v = entry_
                    try:
                        a, b = model.by_uuid(uid).specification, m2.by_uuid(uid).specification
                        if list(a) != list(b) or any(str(a[x]) != str(b[x]) for x in a):
                            out.problems.append(f"{uid}.specification: {[(x, str(a[x])) for x in a]!r} in memory, {[(x, str(b[x])) for x in b]!r} after reload")
                    except (KeyError, AttributeError):
                        pass
            if want_corr and rnd == rounds - 1:
                # the written bytes of small semantic fragments = the writer model on the in-memory tree
                for f, t in primary.items():
                    pth = mroot.joinpath(*f.parts[1:])
                    if f.suffix in SEMANTIC and pth.exists() and pth.stat().st_size < 30_000:
                        b, rr, a = xmlenc.enc_doc(t.root)
                        out.file_cases.append(([f.suffix, b, rr, a], pth.read_bytes()))
            del m2
            if out.problems:
                break
        out.created = len(created)
        del model
    return out


def model_specs(data: pathlib.Path, tier: str):
    small = [
        {"path": data / "decl" / "empty_project_52" / "empty_project_52.aird"},
        {"path": data / "writemodel" / "WriteTestModel.aird"},
    ]
    big = [{"path": data / "melodymodel" / "5_2" / "Melody Model Test.aird"}]
    if tier == "thorough":
        small += [
            {"path": data / "pvmt" / "PVMTTest.aird"}, {"path": data / "parser" / "TestItems.aird"},
            {"path": data / "filtering" / "Filtered Project.aird"}, {"path": data / "Library Test" / "Library Test.aird"},
            {"path": data / "Library Project" / "Library Project.aird", "resources": {"Library Test": data / "Library Test"}},
        ]
        big += [{"path": data / "melodymodel" / "5_0" / "Melody Model Test.aird"}, {"path": data / "melodymodel" / "6_0" / "Melody Model Test.aird"}]
    return [s for s in small if s["path"].exists()], [s for s in big if s["path"].exists()]


def features_of(out: Outcome) -> set[str]:
    f = set()
    for e in out.ops:
        if isinstance(e, tuple) and e[0] in ("spec_set", "spec_lang"):
            for s in e[2:]:
                if "]]>" in s:
                    f.add("cdata")
                if s and not s.strip():
                    f.add("blank")
    return f


def run(chk: lib.Check):
    logging.disable(logging.CRITICAL)
    from capellambse.loader import core
    pr = chk.prove()
    quick = chk.tier == "quick"
    rng = chk.rng
    data = lib.REPO / "tests" / "data"
    t0 = time.time()

    # ---------------- _round_version: model vs implementation
    vs = ["", "5", "5.2", "5.2.0", "1.2.3.4", ".", "..", "5.", ".5", "5..0", "10.20.30", "1.2.3-rc1", "a.b.c", "6.0.0.qualifier", "1.2.3.", "é.1"]
    for _ in range(60 if quick else 1500):
        vs.append("".join(rng.choice("0123456789..a") for _ in range(rng.randrange(0, 9))))
    rcases = []
    for v in vs:
        for p in (0, 1, 2, 3, 5):
            try:
                o = core._round_version(v, p)
            except Exception as e:  # noqa: BLE001
                o = err_of(e)
            rcases.append(((v, p), o))
            if isinstance(o, str) and o.count(".") != v.count("."):
                chk.violation(f"round_version:{v!r}:{p}", f"_round_version({v!r}, {p}) = {o!r} changes the number of parts", {"v": v, "prec": p})
    chk.correspond(IMP, "w_round_version", rcases, tag=f"C02_round_{RUN}")

    # ---------------- edit histories
    small, big = model_specs(data, chk.tier)
    plan = []
    n_small, n_big = (24, 5) if quick else (500, 70)
    for i in range(n_small):
        plan.append((small[i % len(small)], rng.getrandbits(40)))
    for i in range(n_big):
        plan.append((big[i % len(big)], rng.getrandbits(40)))
    ns_cases, file_cases = [], []
    stats = {"histories": 0, "ops": {}, "rejected_ops": {}, "created": 0, "saves_refused": 0, "skipped_after_rejected_op": 0,
             "ns_root_replaced": 0, "ns_root_kept": 0, "files_compared": {}, "extremes": {},
             "fragmented": {"histories": 0, "fragment_files": 0, "in_sub_directory": 0, "nested": 0, "edits_in_fragments": 0,
                            "edits_in_sub_directory_fragments": 0, "aird_style": {}}}
    deadline = t0 + (150 if quick else 1400)
    # directed histories: every class of special string in a specification body / language / name once, and the
    # two namespace-requiring creations on the model that does not declare those namespaces
    specials = ['"&<>\'', "\t", "\r\n", "line1\nline2", " lead", "trail ", "\x7f", "\u0085x", "x\u2028", "\U0001F600", "\U0010FFFF", "&amp;&#x41;",
                "<![CDATA[x", "-->", "]]", "]>", "é" * 40 + " " + "w" * 60]
    dplan = [
        (big[0], [("spec_body", "a ]]> b"), ("spec_lang", "L ]]>")]),
        (big[0], [("spec_body", " "), ("spec_body", "\n"), ("spec_body", "\u00a0"), ("spec_lang", "\t")]),
        (big[0], [("spec_body", s_) for s_ in specials] + [("spec_lang", s_) for s_ in specials[:6]] + [("name", s_) for s_ in specials + [" ", "]]>", "\n"]]),
        (small[0], [("involve", "n1"), ("name", "a ]]> b"), ("name", " ")]),
    ]
    # extremes (on the small write-test model): nesting hundreds of levels deep created through the API, single values of more
    # than 10 MB in an attribute and in element text -- the API accepts them, save() writes them, so they must load again
    wt = next((s_ for s_ in small if s_["path"].name == "WriteTestModel.aird"), small[-1])
    alph = ["QUJD", "ab c", "x", "é😀 y", "a&<b"]
    places_deep, places_long = ["fn", "comp", "pkg", "sa"], ["pv", "text", "desc", "name"]
    rng.shuffle(places_deep)
    rng.shuffle(places_long)
    xplan = []
    for i in range(2 if quick else 8):
        xplan.append((wt, [("deep", f"{places_deep[i % 4]}:{rng.randrange(258, 300) if i == 0 else rng.randrange(300, 900)}")]))
    att, txt = [p_ for p_ in places_long if p_ != "text"], "text"
    plain = [p_ for p_ in att if p_ != "desc"]
    for i, pl in enumerate(([plain[0], "desc", txt] if quick else places_long * 2)):
        al = alph[rng.randrange(len(alph))]
        if pl == "desc" and ("<" in al or "&" in al):
            al = "ab c"                 # an HTML attribute: markup-free text, which the HTML repair has to hand back unchanged
        xplan.append((big[0] if pl == "text" else wt, [("long", f"{pl}:{10_000_000 + rng.randrange(1, 900_000)}:{al}")]))
    if not quick:
        xplan.append((wt, [("long", f"pv:{rng.randrange(30_000_000, 50_000_000)}:x")]))
    dplan += xplan
    if not quick:
        dplan += [(b_, d_) for b_ in big[1:] for _, d_ in dplan[:3]] + [(s_, dplan[3][1]) for s_ in small[1:]]
    # fragmented layouts (Capella's layout: fragments in sub-directories, nested, .airdfragment chain) of the small models and of one
    # big one: same operations + edits inside every fragment file; they run before the random histories so that the time limit
    # never cuts them
    fsmall = [{"path": data / d_ / n_, "frag": True} for d_, n_ in (
        ("decl/empty_project_52", "empty_project_52.aird"), ("writemodel", "WriteTestModel.aird"), ("pvmt", "PVMTTest.aird"),
        ("parser", "TestItems.aird"), ("filtering", "Filtered Project.aird"), ("Library Test", "Library Test.aird")) if (data / d_ / n_).exists()]
    rng.shuffle(fsmall)
    fplan = [(fsmall[i % len(fsmall)], rng.getrandbits(40), ()) for i in range(16 if quick else 200)]
    fplan += [(dict(big[i % len(big)], frag=True), rng.getrandbits(40), ()) for i in range(2 if quick else 16)]
    plan = [(sp_, 1000 + i, d_) for i, (sp_, d_) in enumerate(dplan)] + fplan + [(sp_, sd_, ()) for sp_, sd_ in plan]
    for spec, seed, directed in plan:
        if time.time() > deadline:
            break
        want_corr = len(ns_cases) < (40 if quick else 400) or (bool(spec.get("frag")) and stats["fragmented"].get("ns_cases", 0) < (40 if quick else 400))
        try:
            out = run_history(spec, seed, frozenset(), frozenset(), tier=chk.tier, want_corr=want_corr, directed=directed)
        except Exception as e:  # noqa: BLE001
            import traceback
            tb_ = traceback.extract_tb(e.__traceback__)
            chk.broken.append(f"harness: history {spec['path'].name}:{seed} crashed: {type(e).__name__}: {e} at "
                              + " < ".join(f"{f_.name}:{f_.lineno}" for f_ in reversed(tb_[-4:])))
            continue
        stats["histories"] += 1
        stats["created"] += out.created
        tag_ = spec["path"].name + ("+fragmented" if spec.get("frag") else "")
        if out.frag:
            fs_ = stats["fragmented"]
            fs_["histories"] += 1
            fs_["ns_cases"] = fs_.get("ns_cases", 0) + len(out.ns_cases)
            for k_ in ("fragment_files", "in_sub_directory", "nested"):
                fs_[k_] += out.frag[k_]
            inf_ = [e[1] for e in out.ops if isinstance(e, tuple) and e[0] == "in_fragment"]
            fs_["edits_in_fragments"] += len(inf_)
            fs_["edits_in_sub_directory_fragments"] += sum("/" in x for x in inf_)
            fs_["aird_style"][out.frag["aird_style"]] = fs_["aird_style"].get(out.frag["aird_style"], 0) + 1
        for k_, v_ in out.kinds.items():
            stats["files_compared"][k_] = stats["files_compared"].get(k_, 0) + v_
        for k_, v_ in out.extremes.items():
            stats["extremes"][k_] = max(stats["extremes"].get(k_, 0), v_)
        for e in out.ops:
            k = e[0] if isinstance(e, tuple) else e
            stats["ops"][k] = stats["ops"].get(k, 0) + 1
        for _, k, ex in out.rejected:
            k = k[0] if isinstance(k, tuple) else k
            stats["rejected_ops"][f"{k}:{ex}"] = stats["rejected_ops"].get(f"{k}:{ex}", 0) + 1
        for c in out.ns_cases:
            if isinstance(c[1], Err):
                stats["saves_refused"] += 1
            elif c[1] is None:
                stats["ns_root_kept"] += 1
            else:
                stats["ns_root_replaced"] += 1
        ns_cases += out.ns_cases
        file_cases += out.file_cases[:1] if len(file_cases) < (6 if quick else 60) else []
        chk.note_case((tag_, seed), nontrivial=bool(out.ops))
        if out.problems:
            key = None
            # the recorded defect of the HTML repair (a text run above 10,000,000 bytes comes back empty from lxml's default HTML
            # parser): only when nothing else is wrong with the history and the value was dropped as a whole
            if all(p_.startswith("long value (desc)") and " 0 read back" in p_ for p_ in out.problems):
                chk.violation("html-over-10MB-dropped", f"{spec['path'].name} seed {seed}: {short(out.problems[0])}",
                              {"model": spec["path"].name, "seed": seed, "problems": out.problems,
                               "ops": [list(e) if isinstance(e, tuple) else e for e in out.ops]})
                continue
            # (a) is it explained by the two recorded writer defects?  neutralise the offending kind of string and
            #     re-run; a history stops at its first failing save, so later rounds may add the other kind
            neutral: set[str] = set()
            cur = out
            for _ in range(3):
                feats = features_of(cur) - neutral
                if not cur.problems or not feats:
                    break
                neutral |= feats
                cur = run_history(spec, seed, frozenset(neutral), frozenset(), tier=chk.tier, want_corr=False, directed=directed)
            if neutral and not cur.problems:
                for ft in sorted(neutral):
                    chk.violation(KNOWN[ft], f"{spec['path'].name} seed {seed}: {short(out.problems[0])}",
                                  {"model": spec["path"].name, "seed": seed, "problems": out.problems,
                                   "ops": [list(e) if isinstance(e, tuple) else e for e in out.ops]})
                continue
            # (b) an operation the API refused may have left partial state (other properties' subject)
            if key is None and out.rejected:
                again = run_history(spec, seed, frozenset(), frozenset(n for n, _, _ in out.rejected), tier=chk.tier, want_corr=False, directed=directed)
                if not again.problems:
                    stats["skipped_after_rejected_op"] += 1
                    continue
            if key is None:
                key = f"history:{tag_}:{seed}"
            chk.violation(key, f"{tag_} seed {seed}: {short(out.problems[0])}",
                          {"model": tag_, "seed": seed, "layout": out.frag or None, "ops": [list(e) if isinstance(e, tuple) else e for e in out.ops],
                           "problems": out.problems})
    chk.coverage["histories"] = stats
    chk.correspond(IMP, "w_update_ns", ns_cases, tag=f"C02_ns_{RUN}", shard=6)
    chk.correspond(IMP, "w_file", file_cases, tag=f"C02_file_{RUN}", shard=1)
    chk.samples.append({"ops_of_one_history": stats["ops"]})
    chk.coverage["rule"] = (
        "seeded edit histories through the public API (create function/component/constraint/class+property/property value/"
        "scenario [new versioned namespace]/requirement module [new unversioned namespace]/exchange, delete, move, name/description/"
        "summary set, constrained_elements set, specification body set / new language / delete) with strings over the XML-legal set "
        "(each of %d pieces incl. whitespace-only, CR/LF/TAB, non-BMP, ]]>, entity look-alikes); 1-3 save-edit-save rounds; after each "
        "save a fresh MelodyModel is loaded and every primary fragment is compared with the in-memory tree (before and after save) by a "
        "raw-lxml snapshot: tags, attributes, text, tails, child order, declared prefixes of xsi:type values, comments around the root; "
        "update_namespaces inputs/outputs of every save are replayed on the Coq model. Operations on the other files of the primary resource: "
        "activate_viewpoint (known and arbitrary names/versions; repeated = no-op, other version = refused) -> .afm; diagram name / "
        "description / filters add+discard -> .aird. The set of files of the primary resource (semantic, visual, metadata: "
        "coverage.histories.files_compared) must be the same after reload and each is compared; referenced_viewpoints()/info.viewpoints of "
        "the reloaded model = raw scan of the in-memory .afm. Extremes stream (coverage.histories.extremes = deepest XML level / longest value "
        "reached): chains of 258..900 creations inside one another (functions, components, packages, two layers) and single values of "
        "more than 10,000,000 characters in an attribute and in element text must save and reload equal, under the interpreter's default "
        "recursion limit. Comparison is modulo formatting whitespace (blank tails, blank text in front of a first child). Fragmented layouts "
        "(coverage.histories.fragmented): the small models and one big one split by harness/fragmenter.py into Capella's layout (fragments "
        "of architecture layers / packages in sub-directories, nested, names with spaces / non-ASCII, .airdfragment chain); the same "
        "operations plus, in every round, an edit INSIDE every fragment file (rename / describe / summarise an element or the fragment "
        "root, create / delete a child); every file of the reloaded model is compared tree by tree, and the set of files on disk before "
        "and after every save() (of every history, fragmented or not) must be the same, each held file present at its path" % len(PIECES))
    chk.assumptions += [
        "save() writes the primary resource only: histories edit objects of the primary resource; an edit to an object of a referenced library is accepted by the API and silently not persisted (observed on 'Library Project', by design of MelodyLoader.save)",
        "lxml's parser is represented by the reference reader (sampled in C01); the API-level claim 'edits keep trees inside the writer's domain' is checked by the differential run only",
        "libxml2 drops blank runs under remove_blank_text only below its 300-character buffer: below ~150 levels the indentation written by save() is reloaded as whitespace tails (memory has None); the writer ignores blank tails and a reloaded deep model saves byte-identically (measured at 320..950 levels), so blank tails/pre-child text are not counted as information. Somewhere between 950 and 1500 levels save() ends in RecursionError under the interpreter's default recursion limit (the writer recurses per level): the extremes stream stays below 900",
        "fragmented models: the file shape produced by harness/fragmenter.py is what Capella writes (no fragmented model in the corpus, no Capella offline)",
        "a history in which the API refused an operation and whose mismatch disappears without that operation is not counted (partial state after a refused edit is C04/C09's subject)",
    ]


if __name__ == "__main__":
    lib.main("C02", run)
