"""C12 — Declarative modelling resolves promises independently of declaration order.

Correspondence: generated instruction documents are applied by the real `decl.apply` under
permutations of their instructions; the observable event trace (deferrals, creations,
appends, sets), the returned promise map and the touched cells of the model are compared with
`Model/Decl.v: w_apply` (scheduler + compilation of the document into atomic actions).
Oracle: raw-lxml UUID-free canonical form of all model trees compared across permutations,
promise map / reference targets / member order of list-valued `set`s checked against the
generator's intent (raw XML), error class for undeclared / duplicate promises.
Input classes: promises declared by created objects (extend / create / nested / sync-created) and by
matched sync entries (objects of the base model), duplicates of every pair of those origins (also two
matched entries of one object); `set` values that are scalars, references (!promise / !uuid / !find)
and lists mixing the three in every position, at instruction level and inside matched sync entries.
Systematic streams (every permutation): the option matrix of ONE creation that has to wait for a promise — `_type` (in
single-class lists and in the multi-class list `datatypes`, where the created class depends on it), promise_id (absent /
unused / used as parent / used as value), nested creations, list members, created by extend / create / a sync entry,
keys of the description in several orders; and two or three VALUE-EQUAL actions waiting for the same promise (identical
creations, named and unnamed, in one list or as identical instructions; identical instructions below a promised parent;
identical `set`s; identical sync entries; the same !promise listed twice).  Oracles added for them: every requested
object exists as often as it is written down and with the class its `_type` / its list says (raw XML: xsi:type + name),
and the outcome (success or the error class) is the same for every order.
"""
from __future__ import annotations

import io
import itertools
import logging
import math
import pathlib
import re
import sys

sys.path.insert(0, str(pathlib.Path(__file__).resolve().parent))
import lib
from lib import Err, err_of

# ------------------------------------------------------------------ vocabulary (LA layer)
SCHEMA = {
    "F": {"lists": {"functions": "F", "inputs": "IP", "outputs": "OP", "exchanges": "FE"}, "refs": {}, "reflists": {}},
    "IP": {"lists": {}, "refs": {}, "reflists": {}},
    "OP": {"lists": {}, "refs": {}, "reflists": {}},
    "FE": {"lists": {}, "refs": {"source": "OP", "target": "IP"}, "reflists": {}},
    "C": {"lists": {"components": "C"}, "refs": {}, "reflists": {"allocated_functions": "F"}},
    # `datatypes` is a list with SEVERAL creatable classes: a member cannot be created without its `_type`
    "PK": {"lists": {"packages": "PK", "classes": "K", "datatypes": "EN"}, "refs": {}, "reflists": {}},
    "K": {"lists": {"owned_properties": "PR"}, "refs": {"super": "K"}, "reflists": {"realized_classes": "K"}},
    "PR": {"lists": {}, "refs": {"type": "K"}, "reflists": {}},
    "EN": {"lists": {"owned_literals": "LIT"}, "refs": {"domain_type": "K"}, "reflists": {}},
    "LIT": {"lists": {}, "refs": {}, "reflists": {}},
}
TYPEHINT = {"F": "LogicalFunction", "IP": "FunctionInputPort", "OP": "FunctionOutputPort", "FE": "FunctionalExchange",
            "C": "LogicalComponent", "PK": "DataPkg", "K": "Class", "PR": "Property", "EN": "Enumeration",
            "LIT": "EnumerationLiteral"}
MUST_HINT = {"EN"}      # members of a multi-class list: the `_type` key decides which class is created
STRS = ["description", "summary"]
UUID_RE = re.compile(r"[0-9a-f]{8}-[0-9a-f]{4}-[0-9a-f]{4}-[0-9a-f]{4}-[0-9a-f]{12}")
XSI_TYPE = "{http://www.w3.org/2001/XMLSchema-instance}type"

MODELS = {
    "empty52": "tests/data/decl/empty_project_52/empty_project_52.aird",
    "melody52": "tests/data/melodymodel/5_2/Melody Model Test.aird",
    "melody60": "tests/data/melodymodel/6_0/Melody Model Test.aird",
    "melody50": "tests/data/melodymodel/5_0/Melody Model Test.aird",
}


class Base:
    """Facts about a base model the generator and the model need."""

    def __init__(self, tag: str):
        import capellambse
        self.tag = tag
        self.path = str(lib.REPO / MODELS[tag])
        m = capellambse.MelodyModel(self.path)
        self.objs = {"F": m.la.root_function, "C": m.la.root_component, "PK": m.la.data_package}
        self.key = {t: o.uuid for t, o in self.objs.items()}
        self.name = {t: o.name for t, o in self.objs.items()}
        self.fpkg = m.la.function_package.uuid
        self.ids = set()
        for tr in m._loader.trees.values():
            for el in tr.root.iter():
                if isinstance(el.tag, str) and el.get("id"):
                    self.ids.add(el.get("id"))
        self.names = set()
        for tr in m._loader.trees.values():
            for el in tr.root.iter():
                if isinstance(el.tag, str) and el.get("name"):
                    self.names.add(el.get("name"))
        # initial members of the list cells of the base parents (keys = uuids)
        self.init = []
        for t, o in self.objs.items():
            for attr in SCHEMA[t]["lists"]:
                for x in getattr(o, attr):
                    self.init.append((o.uuid, attr, x.uuid))
            for attr in SCHEMA[t]["reflists"]:
                for x in getattr(o, attr):
                    self.init.append((o.uuid, attr, x.uuid))
        # is a !find by name (+ type) of the base parents unambiguous?
        self.find_ok = {}
        for t, o in self.objs.items():
            hits = m.search(TYPEHINT[t]).by_name(o.name, single=False)
            self.find_ok[t] = len(hits) == 1
        self.find_untyped_ok = {}
        allnamed = [x for x in m.search() if getattr(x, "name", None)]
        for t, o in self.objs.items():
            self.find_untyped_ok[t] = sum(1 for x in allnamed if x.name == o.name) == 1

        # objects of the base model a sync entry matches statically: (parent uuid, list attribute, type, uuid, name);
        # the name is unique in that list, and no generated object ever gets a name of the base model
        self.found = []
        for pk, attr, t in ((m.la.function_package, "functions", "F"), (m.la.component_package, "components", "C")):
            sib = [x.name for x in getattr(pk, attr)]
            for x in getattr(pk, attr):
                if x.uuid == self.key[t] and sib.count(x.name) == 1:
                    self.found.append((pk.uuid, attr, t, x.uuid, x.name))
        for t, o in self.objs.items():
            for attr, ct in SCHEMA[t]["lists"].items():
                sib = [x.name for x in getattr(o, attr)]
                n = 0
                for x in getattr(o, attr):
                    if x.name and sib.count(x.name) == 1 and n < 3 and type(x).__name__ == TYPEHINT[ct]:
                        self.found.append((o.uuid, attr, ct, x.uuid, x.name))
                        n += 1
        # what the string attributes of those objects hold in the base model (the model only knows written cells)
        self.init_vals = {}
        for c in self.found:
            o = m.by_uuid(c[3])
            for a in STRS:
                self.init_vals[(c[3], a)] = str(getattr(o, a) or "")
        # functions of the base model that a list-valued `set` can mention by !uuid / !find
        lf = m.search("LogicalFunction")
        self.extraF = []
        for f in [m.la.root_function] + [f for f in m.la.all_functions if f.uuid != self.key["F"] and not f.functions][:5]:
            typed = sum(1 for x in lf if x.name == f.name) == 1
            untyped = sum(1 for x in allnamed if x.name == f.name) == 1
            self.extraF.append((f.uuid, f.name, typed, untyped))

        # classes of the base model a scalar `set` can refer to by !uuid
        self.extraK = [k.uuid for k in m.la.data_package.classes][:3]

    def load(self):
        import capellambse
        return capellambse.MelodyModel(self.path)


# ------------------------------------------------------------------ abstract documents
class Ref:
    def __init__(self, kind, key, p=None, ps=(), how="uuid", find=None):
        self.kind, self.key, self.p, self.ps, self.how, self.find = kind, key, p, list(ps), how, find

    def val(self):
        if self.kind == "obj":
            return [0, self.key]
        if self.kind == "prom":
            return [1, self.p]
        return [2, self.key, list(self.ps)]

    def yaml(self):
        from capellambse import decl
        if self.kind == "prom":
            return decl.Promise(f"p{self.p}")
        if self.kind == "obj" and self.how == "uuid":
            return decl.UUIDReference(self.key)
        return decl.FindBy({k: (v.yaml() if isinstance(v, Ref) else v) for k, v in self.find.items()})

    def needs(self):
        return [self.p] if self.kind == "prom" else (list(self.ps) if self.kind == "find" else [])


def sv_needs(v):
    if isinstance(v, Ref):
        return v.needs()
    if isinstance(v, list):
        return [p for r in v for p in r.needs()]
    return []


def sval_val(v):
    if isinstance(v, list):          # a list of references (list-valued `set`)
        return [2, [r.val() for r in v]]
    return [1, v.val()] if isinstance(v, Ref) else [0, v]


def sval_yaml(v):
    if isinstance(v, list):
        return [r.yaml() for r in v]
    return v.yaml() if isinstance(v, Ref) else v


def decl_val(d):
    return None if d is None else d


class Item:
    def __init__(self, name=None, typ=None, decl=None, simple=None, complex=None, ref=None, hint=False):
        self.name, self.typ, self.decl, self.simple, self.complex, self.ref, self.hint = \
            name, typ, decl, simple or [], complex or [], ref, hint

    def val(self):
        if self.ref is not None:
            return [1, self.ref.val()]
        # attributes in the order of the keys of the YAML mapping (the code walks the mapping)
        pos = {k: i for i, k in enumerate(self.yaml(shallow=True))}
        simple = sorted(self.simple, key=lambda kv: pos[kv[0]])
        cx = sorted(self.complex, key=lambda g: pos[g[0]])
        return [0, decl_val(self.decl), self.name, [[k, sval_val(v)] for k, v in simple],
                [[a, [i.val() for i in its]] for a, its in cx]]

    def yaml(self, shallow=False):
        if self.ref is not None:
            return self.ref.yaml()
        d = {} if self.noname else {"name": self.name}
        if self.hint or self.typ in MUST_HINT:
            d["_type"] = TYPEHINT[self.typ]
        if self.decl is not None and self.decl_first:
            d["promise_id"] = f"p{self.decl}"
        for k, v in self.simple:
            d[k] = sval_yaml(v)
        for a, its in self.complex:
            d[a] = None if shallow else [i.yaml() for i in its]
        if self.decl is not None and not self.decl_first:
            d["promise_id"] = f"p{self.decl}"
        if self.keyorder is not None:
            # the position of the steering keys (`_type`, promise_id) among the attributes has no influence on the result
            ks = list(d)
            ks = [ks[i] for i in sorted(range(len(ks)), key=lambda i: (self.keyorder * (i + 3) * 7919) % 101)]
            d = {k: d[k] for k in ks}
        return d

    decl_first = True
    noname = False          # an object without a name (key "" in the model)
    keyorder = None         # None: name, _type, [promise_id], attributes, [promise_id]; a number: that permutation of the keys

    def deferrable(self):
        if self.ref is not None:
            return bool(self.ref.needs())
        return any(isinstance(v, Ref) and v.needs() for _, v in self.simple)


class SItem:
    def __init__(self, found, decl, name, typ, find, set_, hint=False, key=None):
        self.found, self.decl, self.name, self.typ, self.find, self.set, self.hint = found, decl, name, typ, find, set_, hint
        self.key = key if key is not None else name

    def val(self):
        return [bool(self.found), decl_val(self.decl), self.key,
                [[k, sval_val(v)] for k, v in self.find], [[k, sval_val(v)] for k, v in self.set]]

    def yaml(self):
        f = {"name": self.name}
        if self.hint or self.typ in MUST_HINT:
            f["_type"] = TYPEHINT[self.typ]
        for k, v in self.find:
            f[k] = sval_yaml(v)
        d = {"find": f}
        if self.set:
            d["set"] = {k: sval_yaml(v) for k, v in self.set}
        if self.decl is not None:
            d["promise_id"] = f"p{self.decl}"
        return d

    def deferrable(self):
        # a matched entry waits for its find keys only (its `set` values are postponed on their own); an entry that
        # creates its object waits for the scalar / reference values of find and set
        if self.found:
            return any(sv_needs(v) for _, v in self.find)
        return any(isinstance(v, Ref) and v.needs() for _, v in self.find + self.set)


class Instr:
    def __init__(self, parent):
        self.parent = parent
        self.create, self.extend, self.set, self.sync = [], [], [], []
        self.order = None       # key order in the YAML mapping (no influence on the result)

    def val(self):
        g = lambda gs: [[a, [i.val() for i in its]] for a, its in gs]
        return [self.parent.val(), g(self.create), g(self.extend), [[k, sval_val(v)] for k, v in self.set],
                [[a, [x.val() for x in xs]] for a, xs in self.sync]]

    def yaml(self):
        parts = {}
        if self.create:
            parts["create"] = {a: [i.yaml() for i in its] for a, its in self.create}
        if self.extend:
            parts["extend"] = {a: [i.yaml() for i in its] for a, its in self.extend}
        if self.set:
            parts["set"] = {k: sval_yaml(v) for k, v in self.set}
        if self.sync:
            parts["sync"] = {a: [x.yaml() for x in xs] for a, xs in self.sync}
        keys = list(parts)
        if self.order:
            keys.sort(key=lambda k: self.order.index(k))
        d = {"parent": self.parent.yaml()}
        for k in keys:
            d[k] = parts[k]
        return d


# ------------------------------------------------------------------ generator
class Obj:
    def __init__(self, idx, name, typ, parent, attr):
        self.idx, self.name, self.typ, self.parent, self.attr = idx, name, typ, parent, attr
        self.strs, self.refs, self.reflists, self.children = {}, {}, {}, {}
        self.late = {}            # attribute -> value given by a separate `set` instruction
        self.promise = None
        self.inline = False       # nested in the parent's item
        self.sync = False
        self.via_find = False     # referenced through !find {name, parent: !promise}

    @property
    def key(self):
        return self.name


class Plan:
    """One generated document with everything the oracle wants to know about it."""

    def __init__(self):
        self.instrs: list[Instr] = []
        self.objs: list[Obj] = []
        self.expect = "ok"                 # ok | unf | dup | same (whatever happens, it happens in every order)
        self.stable = True                 # no list gets a deferrable non-last member
        self.promise_target = {}           # p -> key
        self.ref_expect = []               # (owner key, target key)
        self.list_expect = []              # (owner key, attr, [member keys in the order of the `set` list])
        self.found_keys = []               # uuids of base objects matched by sync entries
        self.features = set()
        self.model = True                  # compare the runs with the Coq model as well


def gen_plan(rng, base: Base, n: int, *, stable=True, malform=None, feature_bias=None) -> Plan:
    plan = Plan()
    plan.stable = stable
    used_names = set(base.names)
    bases = {t: ("base", t) for t in base.objs}
    objs: list[Obj] = []

    def fresh_name(i):
        while True:
            nm = "n%d%s" % (i, rng.choice(["", "x", " y", "-z", "_q"]))
            if nm not in used_names:
                used_names.add(nm)
                return nm

    def typ_of(p):
        return p[1] if isinstance(p, tuple) else p.typ

    # 1. objects
    for i in range(n):
        cands = [b for b in bases.values() if stable or b[1] != "PK"] + [o for o in objs if SCHEMA[o.typ]["lists"]]
        # bias towards deeper trees
        p = rng.choice(cands[-4:] if rng.random() < 0.5 else cands)
        attr = rng.choice(list(SCHEMA[typ_of(p)]["lists"]))
        o = Obj(i, fresh_name(i), SCHEMA[typ_of(p)]["lists"][attr], p, attr)
        objs.append(o)
        if isinstance(p, Obj):
            p.children.setdefault(attr, []).append(o)
    # often: a component with functions to allocate (promises inside lists)
    if rng.random() < 0.45:
        for typ, battr in (("C", "components"), ("F", "functions"), ("F", "functions")):
            par = rng.choice([bases[typ]] + [o for o in objs if o.typ == typ])
            o = Obj(len(objs), fresh_name(len(objs)), typ, par, battr)
            objs.append(o)
            if isinstance(par, Obj):
                par.children.setdefault(battr, []).append(o)
    plan.objs = objs
    by_type = lambda t: [o for o in objs if o.typ == t]
    # 2. references
    ks = by_type("K")
    rng.shuffle(ks)
    for j, k in enumerate(ks):
        if j and rng.random() < 0.6:
            k.refs["super"] = rng.choice(ks[:j])
    for fe in by_type("FE"):
        if by_type("OP") and rng.random() < 0.8:
            fe.refs["source"] = rng.choice(by_type("OP"))
        if by_type("IP") and rng.random() < 0.8:
            fe.refs["target"] = rng.choice(by_type("IP"))
    for pr in by_type("PR"):
        if by_type("K") and rng.random() < 0.8:
            pr.refs["type"] = rng.choice(by_type("K"))
    for en in by_type("EN"):
        if by_type("K") and rng.random() < 0.8:
            en.refs["domain_type"] = rng.choice(by_type("K"))
    free_f = by_type("F")
    rng.shuffle(free_f)
    for c in by_type("C"):
        k = rng.choice([0, 1, 1, 2]) if stable else rng.choice([0, 1, 2, 3])
        if stable:
            k = min(k, 1)
        c.reflists["allocated_functions"] = [free_f.pop() for _ in range(min(k, len(free_f)))]
    # 2b. a list-valued `set`: the allocated functions of a component given as ONE list that mixes promises,
    #     !uuid references and !find directives in every position (the whole `set` waits, the order is kept)
    setlists = []          # (target Obj | base tuple, [member Obj | ("basef", index into base.extraF)])
    if rng.random() < (feature_bias or {}).get("set-list", 0.5):
        comps = [c for c in by_type("C") if not c.reflists.get("allocated_functions")]
        target = rng.choice(comps) if comps and rng.random() < 0.6 else bases["C"]
        k = rng.choice([1, 2, 2, 3, 3, 4])
        nprom = rng.choice([0] + list(range(1, k + 1)) * 2)
        nprom = max(nprom, k - len(base.extraF))
        while len(free_f) < nprom:
            par = rng.choice([bases["F"]] + by_type("F"))
            o = Obj(len(objs), fresh_name(len(objs)), "F", par, "functions")
            objs.append(o)
            if isinstance(par, Obj):
                par.children.setdefault("functions", []).append(o)
            free_f.append(o)
        members = [free_f.pop() for _ in range(nprom)]
        bf = list(range(len(base.extraF)))
        rng.shuffle(bf)
        members += [("basef", i) for i in bf[: k - nprom]]
        rng.shuffle(members)
        setlists.append((target, members))
    # 3. strings; some are set late by a separate instruction, some references too
    for o in objs:
        for a in STRS:
            r = rng.random()
            if r < 0.35:
                o.strs[a] = rng.choice(["alpha", "be ta", "x: y", "", "q!", "#1"]) + str(rng.randint(0, 99))
            elif r < 0.5:
                o.late[a] = "late %d" % rng.randint(0, 99)
        for a in list(o.refs):
            if rng.random() < 0.25:
                o.late[a] = o.refs.pop(a)
        # a reference to an object of the base model, set by a separate instruction (!uuid as a scalar `set` value)
        if o.typ in ("K", "PR") and base.extraK and rng.random() < 0.4:
            a = "super" if o.typ == "K" else "type"
            if a not in o.refs and a not in o.late:
                o.late[a] = ("basek", rng.choice(base.extraK))
    # 4. cells: inline or separate; sync mode for some separate cells
    cells = {}
    for o in objs:
        cells.setdefault((id(o.parent) if isinstance(o.parent, Obj) else o.parent, o.attr), []).append(o)
    sep_cells = []
    for (_, attr), members in cells.items():
        p = members[0].parent
        inline = isinstance(p, Obj) and rng.random() < 0.55
        if inline:
            for mbr in members:
                mbr.inline = True
        else:
            mode = "sync" if rng.random() < 0.25 else "extend"
            sep_cells.append([p, attr, members, mode])
    # sync entries cannot nest items: children of a sync-created object live in separate cells
    changed = True
    while changed:
        changed = False
        for c in sep_cells:
            if c[3] == "sync":
                for mbr in c[2]:
                    mbr.sync = True
                    for a, ch in mbr.children.items():
                        if ch and ch[0].inline:
                            for x in ch:
                                x.inline = False
                            sep_cells.append([mbr, a, ch, "extend"])
                            changed = True
    # an inline object whose parent is not inline-reachable is fine: inline means "nested in the parent's item"
    # 5. who needs a promise id
    pid_counter = [0]

    def need_promise(o: Obj):
        if o.promise is None:
            pid_counter[0] += 1
            o.promise = pid_counter[0]
            plan.promise_target[o.promise] = o.key
        return o.promise

    def ref_to(target, *, allow_find=True) -> Ref:
        """a reference value / parent designating `target` (Obj or base tuple)"""
        if isinstance(target, tuple):
            t = target[1]
            if base.find_ok[t] and rng.random() < 0.4:
                plan.features.add("find-base")
                f = {"name": base.name[t]}
                if rng.random() < 0.7 or not base.find_untyped_ok[t]:
                    f = {"_type": TYPEHINT[t], "name": base.name[t]}
                return Ref("obj", base.key[t], how="find", find=f)
            return Ref("obj", base.key[t])
        # a port nested inline under a function can be found through its parent's promise
        if (allow_find and target.typ in ("IP", "OP") and target.inline and isinstance(target.parent, Obj)
                and not target.late and rng.random() < 0.35):
            pp = need_promise(target.parent)
            plan.features.add("find-with-promise")
            return Ref("find", target.key, ps=[pp],
                       find={"_type": TYPEHINT[target.typ], "name": target.name, "parent": Ref("prom", target.parent.key, p=pp)})
        return Ref("prom", target.key, p=need_promise(target))

    # 6. items
    def simple_of(o: Obj):
        s = [(a, v) for a, v in o.strs.items()]
        for a, tgt in o.refs.items():
            r = ref_to(tgt)
            plan.ref_expect.append((o.key, tgt.key))
            s.append((a, r))
        rng.shuffle(s)
        return s

    def item_of(o: Obj) -> Item:
        it = Item(name=o.name, typ=o.typ, simple=simple_of(o), hint=rng.random() < 0.3)
        it.decl_first = rng.random() < 0.5
        it._obj = o
        groups = []
        for a, ch in o.children.items():
            if ch and ch[0].inline:
                groups.append((a, order_members([item_of(x) for x in ch])))
        for a, tg in o.reflists.items():
            if tg:
                plan.features.add("promise-in-list")
                mem = []
                for x in tg:
                    mem.append(Item(ref=ref_to(x, allow_find=False)))
                    plan.ref_expect.append((o.key, x.key))
                groups.append((a, order_members(mem)))
        rng.shuffle(groups)
        it.complex = groups
        return it

    def order_members(items):
        """stable documents: at most one deferrable member per list, and it comes last"""
        if not stable:
            rng.shuffle(items)
            return items
        d = [i for i in items if i.deferrable()]
        nd = [i for i in items if not i.deferrable()]
        for extra in d[1:]:
            strip_deferrable(extra)
            nd.append(extra)
        return nd + d[:1]

    def strip_deferrable(it):
        """turn promise-valued simple attributes into late `set` instructions"""
        if isinstance(it, Item) and it.ref is not None:
            return
        lst = it.simple if isinstance(it, Item) else it.set
        keep = []
        for a, v in lst:
            if isinstance(v, Ref) and v.needs():
                it._obj.late[a] = v
            else:
                keep.append((a, v))
        lst[:] = keep

    instrs: list[Instr] = []
    by_parent: dict = {}
    for p, attr, members, mode in sep_cells:
        if mode == "sync":
            xs = []
            for mbr in members:
                s = simple_of(mbr)
                nfind = rng.randint(0, len(s)) if rng.random() < 0.3 else 0
                x = SItem(False, None, mbr.name, mbr.typ, s[:nfind], s[nfind:], hint=rng.random() < 0.4)
                x._obj = mbr
                xs.append(x)
            if stable:
                d = [x for x in xs if x.deferrable()]
                nd = [x for x in xs if not x.deferrable()]
                for extra in d[1:]:
                    for a, v in extra.find:
                        if isinstance(v, Ref) and v.needs():
                            extra._obj.late[a] = v
                    extra.find = [(a, v) for a, v in extra.find if not (isinstance(v, Ref) and v.needs())]
                    strip_deferrable(extra)
                    nd.append(extra)
                xs = nd + d[:1]
            else:
                rng.shuffle(xs)
            payload = ("sync", attr, xs)
            plan.features.add("sync-create")
        else:
            payload = ("create" if rng.random() < 0.2 else "extend", attr, order_members([item_of(x) for x in members]))
        by_parent.setdefault(id(p) if isinstance(p, Obj) else p, (p, []))[1].append(payload)
    # reflists of base objects are not generated; reflists of sync-created components go to a separate instruction
    for o in objs:
        if o.sync and o.reflists.get("allocated_functions"):
            mem = []
            for x in o.reflists["allocated_functions"]:
                mem.append(Item(ref=ref_to(x, allow_find=False)))
                plan.ref_expect.append((o.key, x.key))
            by_parent.setdefault(id(o), (o, []))[1].append(("extend", "allocated_functions", order_members(mem)))
    # sync entries that match an object of the base model (found statically), some declared as a promise
    found_promise: dict = {}      # uuid -> promise id
    found_item: dict = {}         # uuid -> (Instr, SItem)
    cand_of = {c[3]: c for c in base.found}

    def add_found(cand, pid, sets, *, into=None):
        par_uuid, attr, typ, uuid, name = cand
        x = SItem(True, pid, name, typ, [], sets, hint=rng.random() < 0.5, key=uuid)
        x._obj = None
        if into is not None:
            into.sync[0][1].append(x)          # a second entry in the same list of the same instruction
            return into, x
        ins = Instr(Ref("obj", par_uuid))
        ins.sync.append((attr, [x]))
        instrs.append(ins)
        if uuid not in plan.found_keys:
            plan.found_keys.append(uuid)
        return ins, x

    nfound = rng.choice([0, 0, 1, 1, 2])
    for cand in rng.sample(base.found, min(nfound, len(base.found))):
        pid = None
        if rng.random() < 0.6:
            pid_counter[0] += 1
            pid = pid_counter[0]
            plan.promise_target[pid] = cand[3]
            found_promise[cand[3]] = pid
        sets = [("summary", "found %d" % rng.randint(0, 9))] if rng.random() < 0.5 else []
        found_item[cand[3]] = add_found(cand, pid, sets)
        plan.features.add("sync-found")
        if cand[3] not in base.key.values():
            plan.features.add("sync-found-child")
    # late sets
    for o in objs:
        for a, v in o.late.items():
            if isinstance(v, Obj):
                plan.ref_expect.append((o.key, v.key))
                v = ref_to(v)
            elif isinstance(v, tuple):
                plan.ref_expect.append((o.key, v[1]))
                v = Ref("obj", v[1])
            by_parent.setdefault(id(o), (o, []))[1].append(("set", a, v))
            plan.features.add("set")
    # list-valued sets
    for target, members in setlists:
        refs, keys, kinds = [], [], []
        for mb in members:
            if isinstance(mb, Obj):
                refs.append(ref_to(mb, allow_find=False))
                keys.append(mb.key)
                kinds.append("P")
                continue
            u, nm, typed_ok, untyped_ok = base.extraF[mb[1]]
            keys.append(u)
            r = rng.random()
            if u in found_promise and r < 0.5:
                refs.append(Ref("prom", u, p=found_promise[u]))
                kinds.append("P")
            elif typed_ok and r < 0.75:
                f = {"name": nm} if (untyped_ok and rng.random() < 0.3) else {"_type": "LogicalFunction", "name": nm}
                refs.append(Ref("obj", u, how="find", find=f))
                kinds.append("F")
            else:
                refs.append(Ref("obj", u))
                kinds.append("U")
        tkey = base.key["C"] if isinstance(target, tuple) else target.key
        plan.list_expect.append((tkey, "allocated_functions", keys))
        for k_ in keys:
            plan.ref_expect.append((tkey, k_))
        plan.features.add("set-list")
        plan.features.add("set-list:%d" % len(refs))
        if "P" in kinds[:-1]:
            plan.features.add("set-list:promise-before-other-member")
        if len(set(kinds)) > 1:
            plan.features.add("set-list:mixed")
        if isinstance(target, tuple) and base.key["C"] in found_item and rng.random() < 0.5:
            found_item[base.key["C"]][1].set.append(("allocated_functions", refs))     # `set` of a matched sync entry
            plan.features.add("set-list:in-sync-entry")
        else:
            by_parent.setdefault(id(target) if isinstance(target, Obj) else target, (target, []))[1].append(
                ("set", "allocated_functions", refs))
    for key, (p, payloads) in by_parent.items():
        rng.shuffle(payloads)
        # split into 1..k instructions
        chunks = [[]]
        for pl in payloads:
            if chunks[-1] and rng.random() < 0.5:
                chunks.append([])
            chunks[-1].append(pl)
        for ch in chunks:
            if isinstance(p, tuple) and base.key[p[1]] in found_promise and rng.random() < 0.6:
                pref = Ref("prom", base.key[p[1]], p=found_promise[base.key[p[1]]])
            else:
                pref = ref_to(p, allow_find=False)
            if pref.kind == "prom":
                plan.features.add("promise-parent")
            ins = Instr(pref)
            for op, attr, payload in ch:
                if op == "set":
                    ins.set.append((attr, payload))
                elif op == "sync":
                    ins.sync.append((attr, payload))
                else:
                    # one key per op: the same attr cannot be in create and extend of one instruction (it would be the same list)
                    getattr(ins, op).append((attr, payload))
            ins.order = rng.sample(["create", "extend", "set", "sync"], 4)
            instrs.append(ins)
    # promise ids are assigned lazily: write them into the items now
    def fix_decl(it):
        if isinstance(it, Item) and it.ref is None:
            it.decl = it._obj.promise
            for _, its in it.complex:
                for x in its:
                    fix_decl(x)
    def fix_all():
        for ins in instrs:
            for _, its in ins.create + ins.extend:
                for it in its:
                    fix_decl(it)
            for _, xs in ins.sync:
                for x in xs:
                    if getattr(x, "_obj", None) is not None:
                        x.decl = x._obj.promise
    fix_all()
    # chained promises
    depth = 0
    for o in objs:
        d, q = 0, o
        while isinstance(q, Obj) and not q.inline and isinstance(q.parent, Obj):
            d += 1
            q = q.parent
        depth = max(depth, d)
    if depth >= 2:
        plan.features.add("chained-promises")
    for o in objs:
        if o.typ in MUST_HINT:
            plan.features.add("multi-class-list")
            if o.refs:
                plan.features.add("multi-class-list:member-waits")
    if any(isinstance(v, Ref) and v.kind == "prom" for ins in instrs for _, v in ins.set):
        plan.features.add("set-promise-value")
    if any(isinstance(v, Ref) and v.kind == "obj" for ins in instrs for _, v in ins.set):
        plan.features.add("set-reference-value")
    if any(isinstance(v, str) for ins in instrs for _, v in ins.set):
        plan.features.add("set-scalar-value")
    # 6b. unstable stream: a list whose first member waits for a promise declared by another instruction
    if not stable:
        pid_counter[0] += 2
        pg, px = pid_counter[0] - 1, pid_counter[0]
        g = Obj(90, fresh_name(90), "PK", bases["PK"], "packages")
        kx = Obj(91, fresh_name(91), "K", g, "classes")
        ka = Obj(92, fresh_name(92), "K", bases["PK"], "classes")
        kb = Obj(93, fresh_name(93), "K", bases["PK"], "classes")
        g.promise, kx.promise = pg, px
        plan.promise_target[pg], plan.promise_target[px] = g.key, kx.key
        ikx = Item(name=kx.name, typ="K"); ikx._obj = kx
        ig = Item(name=g.name, typ="PK", complex=[("classes", [ikx])]); ig._obj = g
        ika = Item(name=ka.name, typ="K", simple=[("super", Ref("prom", kx.key, p=px))]); ika._obj = ka
        ikb = Item(name=kb.name, typ="K"); ikb._obj = kb
        i0 = Instr(Ref("obj", base.key["PK"])); i0.extend.append(("packages", [ig]))
        i1 = Instr(Ref("obj", base.key["PK"])); i1.extend.append(("classes", [ika, ikb]))
        instrs += [i0, i1]
        objs += [g, kx, ka, kb]
        plan.ref_expect.append((ka.key, kx.key))
        plan.features.add("unstable-gadget")
    # 7. malformed variants
    if malform == "unf":
        plan.expect = "unf"
        ghost = 900 + rng.randint(0, 9)
        where = rng.choice(["parent", "set", "member", "attr", "setlist"])
        if where == "parent" or not instrs:
            ins = Instr(Ref("prom", "?", p=ghost))
            ins.set.append(("description", "never"))
            instrs.append(ins)
        elif where == "set":
            rng.choice(instrs).set.append(("zz_unused", Ref("prom", "?", p=ghost)))
        elif where == "setlist":
            # an undeclared promise inside a list-valued `set`, at any position
            mem = [Ref("obj", base.key["F"]), Ref("prom", "?", p=ghost)]
            rng.shuffle(mem)
            ins = Instr(Ref("obj", base.key["C"]))
            ins.set.append(("allocated_functions", mem))
            instrs.append(ins)
        elif where == "member":
            cs = [o for o in objs if o.typ == "C" and not o.sync]
            ins = Instr(ref_to(cs[0], allow_find=False) if cs else Ref("obj", base.key["C"]))
            ins.extend.append(("allocated_functions", [Item(ref=Ref("prom", "?", p=ghost))]))
            instrs.append(ins)
        else:
            ins = Instr(Ref("obj", base.key["F"]))
            ins.extend.append(("exchanges", [Item(name=fresh_name(99), typ="FE", simple=[("source", Ref("prom", "?", p=ghost))])]))
            ins.extend[0][1][0]._obj = Obj(99, "ghost", "FE", None, None)
            instrs.append(ins)
        plan.features.add("undeclared:" + where)
    elif malform == "dup":
        # a promise id declared twice; the two declarations come from every origin: a created object (extend /
        # create / nested / sync-created) or a matched sync entry — also two matched entries of the SAME object
        # (both declarers have the same type: the generated users of the id — parents, values — fit either object)
        variants = ["new+extend", "new+sync", "new+found", "found+new", "found+found-same", "found+found-same", "found+found-other"]
        first, second = ((feature_bias or {}).get("dup") or rng.choice(variants)).split("+", 1)
        ftypes = {c[2] for c in base.found}
        cand2 = None
        if second == "found" and not any(o.promise is not None and o.typ in ftypes for o in objs):
            second = rng.choice(["extend", "sync"])
        if first == "new":
            declared = [o for o in objs if o.promise is not None]
            if not declared:
                o0 = rng.choice(objs)
                need_promise(o0)
                ins = Instr(ref_to(o0, allow_find=False))
                ins.set.append(("summary", "dup user"))
                o0.late["summary"] = "dup user"
                o0.strs.pop("summary", None)
                instrs.append(ins)
                declared = [o0]
            if second == "found":
                declared = [o for o in declared if o.typ in ftypes]
            o = rng.choice(declared)
            pid = o.promise
            origin = "sync-created" if o.sync else ("nested" if o.inline else "extend")
            cand = None
        else:
            if found_promise:
                u = rng.choice(sorted(found_promise))
                pid, cand = found_promise[u], cand_of[u]
                if second == "found-other" and not any(c[2] == cand[2] and c[3] != u for c in base.found):
                    second = "found-same"
            else:
                if second == "found-other":
                    multi = [c for c in base.found if sum(1 for c2 in base.found if c2[2] == c[2]) > 1]
                    if not multi:
                        second = "found-same"
                cand = rng.choice(multi if second == "found-other" else base.found)
                pid_counter[0] += 1
                pid = pid_counter[0]
                found_promise[cand[3]] = pid
                found_item[cand[3]] = add_found(cand, pid, [])
            origin = "sync-matched"
        if second in ("extend", "sync"):
            ins = Instr(ref_to(o.parent, allow_find=False))
            twin = Obj(98, fresh_name(98), o.typ, o.parent, o.attr)
            twin.promise = pid
            if second == "extend":
                it = Item(name=twin.name, typ=o.typ, decl=pid)
                it._obj = twin
                ins.extend.append((o.attr, [it]))
            else:
                x = SItem(False, pid, twin.name, o.typ, [], [])
                x._obj = twin
                ins.sync.append((o.attr, [x]))
            instrs.append(ins)
            second = {"extend": "extend", "sync": "sync-created"}[second]
        elif second == "new":
            t, attr = rng.choice([(t_, a_) for t_ in sorted(base.objs) for a_, ct in sorted(SCHEMA[t_]["lists"].items())
                                  if ct == cand[2]])
            twin = Obj(98, fresh_name(98), SCHEMA[t]["lists"][attr], bases[t], attr)
            twin.promise = pid
            it = Item(name=twin.name, typ=twin.typ, decl=pid)
            it._obj = twin
            ins = Instr(Ref("obj", base.key[t]))
            getattr(ins, rng.choice(["extend", "create"])).append((attr, [it]))
            instrs.append(ins)
            second = "extend"
        else:
            if second == "found-other":
                cand2 = rng.choice([c for c in base.found if c[3] != cand[3] and c[2] == cand[2]])
            elif second == "found-same":
                cand2 = cand
            else:
                cand2 = rng.choice([c for c in base.found if c[2] == o.typ])
            sets = [("description", "declared a second time")] if rng.random() < 0.5 else []
            same_list = second == "found-same" and rng.random() < 0.4
            add_found(cand2, pid, sets, into=found_item[cand[3]][0] if same_list else None)
            second = "sync-matched" + ("-same-object" if cand is not None and cand2[3] == cand[3] else "")
        # until the duplicate is noticed the id resolves to either declarer: a list that mentions the id must not also
        # mention a matched declarer in another way (the list would hold the same object twice)
        dupset = {c[3] for c in (cand, cand2) if c is not None}

        def clash(r):
            return ((r.kind == "obj" and r.key in dupset)
                    or (r.kind == "prom" and r.p != pid and plan.promise_target.get(r.p) in dupset))
        for ins in instrs:
            holders = [ins.set] + [x.set for _, xs in ins.sync for x in xs]
            for lst in holders:
                for i, (a, v) in enumerate(lst):
                    if isinstance(v, list) and any(r.kind == "prom" and r.p == pid for r in v):
                        lst[i] = (a, [r for r in v if not clash(r)])
        if rng.random() < 0.5:
            ins = Instr(Ref("prom", "?", p=pid))          # somebody uses the id
            ins.set.append(("description", "uses the duplicated id"))
            instrs.append(ins)
        plan.expect = "dup"
        plan.features.add("duplicate")
        plan.features.add(f"duplicate:{origin}+{second}")
    fix_all()
    rng.shuffle(instrs)
    plan.instrs = instrs
    return plan


# ------------------------------------------------------------------ systematic streams (hand-built plans)
def _fresh(base: Base, prefix: str):
    i = 0
    while True:
        nm = f"{prefix}{i}"
        i += 1
        if nm not in base.names:
            yield nm


def _item(rng, name, typ, *, decl=None, simple=None, complex=None, hint=False, noname=False) -> Item:
    it = Item(name=name, typ=typ, decl=decl, simple=simple, complex=complex, hint=hint)
    it.decl_first = rng.random() < 0.5
    it.keyorder = rng.choice([None, None, 1, 2, 3, 5, 8, 13])
    it.noname = noname
    return it


def _prom(p, key="?"):
    return Ref("prom", key, p=p)


def option_matrix(rng, base: Base):
    """ONE creation that has to wait for a promise another instruction declares, with every combination of the
    optional keys of an object description: `_type` (in a single-class list, where it is redundant, and in a
    multi-class list, where the class depends on it), promise_id (absent / unused / used as a parent / used as a
    value — the user then waits for the waiting creation), nested creations, list members; created by extend /
    create or by a sync entry that finds nothing.  Every plan is run under all permutations."""
    PK, F = base.key["PK"], base.key["F"]
    nm = _fresh(base, "mx")
    plans = []
    for kind in ("K", "EN", "FE", "sK", "sEN"):
        typ, sync = kind.lstrip("s"), kind.startswith("s")
        hints = (True,) if typ in MUST_HINT else (False, True)
        pids = ("none", "unused", "parent", "value") if typ != "FE" else ("none", "unused", "parent")
        nests = (False, True) if (typ in ("K", "EN") and not sync) else (False,)
        membs = (False, True) if typ == "K" else (False,)
        for hint, pidmode, nested, members in itertools.product(hints, pids, nests, membs):
            plan = Plan()
            D = next(nm)
            pD = 2 if pidmode != "none" else None
            objs, instrs = [], []
            if typ == "FE":
                ni, no = next(nm), next(nm)
                objs += [Obj(0, ni, "IP", ("base", "F"), "inputs"), Obj(1, no, "OP", ("base", "F"), "outputs"),
                         Obj(2, D, "FE", ("base", "F"), "exchanges")]
                g_in = ("inputs", [_item(rng, ni, "IP", decl=1)])
                g_out = ("outputs", [_item(rng, no, "OP", decl=3)])
                if rng.random() < 0.5:            # the two awaited promises come from two instructions
                    for g in (g_in, g_out):
                        ins = Instr(Ref("obj", F)); ins.extend.append(g); instrs.append(ins)
                else:
                    ins = Instr(Ref("obj", F)); ins.extend += [g_in, g_out]; instrs.append(ins)
                simple = [("source", _prom(3, no)), ("target", _prom(1, ni))]
                rng.shuffle(simple)
                use = Instr(Ref("obj", F))
                getattr(use, rng.choice(["extend", "extend", "create"])).append(
                    ("exchanges", [_item(rng, D, "FE", decl=pD, simple=simple, hint=hint)]))
                instrs.append(use)
                plan.promise_target = {1: ni, 3: no}
                plan.ref_expect = [(D, ni), (D, no)]
            else:
                G, T = next(nm), next(nm)
                lst, refattr = ("classes", "super") if typ == "K" else ("datatypes", "domain_type")
                gobj = Obj(0, G, "PK", ("base", "PK"), "packages")
                tobj = Obj(1, T, "K", gobj, "classes")
                dobj = Obj(2, D, typ, ("base", "PK"), lst)
                objs += [gobj, tobj, dobj]
                tcomplex = []
                if pidmode == "value":
                    q = next(nm)
                    objs.append(Obj(3, q, "PR", tobj, "owned_properties"))
                    tcomplex.append(("owned_properties", [_item(rng, q, "PR", simple=[("type", _prom(2, D))])]))
                    plan.ref_expect.append((q, D))
                decl_i = Instr(Ref("obj", PK))
                decl_i.extend.append(("packages", [_item(rng, G, "PK", complex=[
                    ("classes", [_item(rng, T, "K", decl=1, complex=tcomplex)])])]))
                instrs.append(decl_i)
                plan.promise_target = {1: T}
                plan.ref_expect.append((D, T))
                use = Instr(Ref("obj", PK))
                if sync:
                    props = [(refattr, _prom(1, T))]
                    if rng.random() < 0.5:
                        props.insert(0, ("description", "made by a sync entry"))
                    nfind = rng.choice([0, 0, len(props)])
                    sets = props[nfind:]
                    if members:
                        sets = sets + [("realized_classes", [_prom(1, T)])]
                    x = SItem(False, pD, D, typ, props[:nfind], sets, hint=hint)
                    use.sync.append((lst, [x]))
                else:
                    cx = []
                    if nested and typ == "K":
                        P = next(nm)
                        objs.append(Obj(4, P, "PR", dobj, "owned_properties"))
                        ps = [("type", _prom(1, T))] if rng.random() < 0.5 else []
                        cx.append(("owned_properties", [_item(rng, P, "PR", simple=ps, hint=rng.random() < 0.5)]))
                    elif nested:
                        L1, L2 = next(nm), next(nm)
                        objs += [Obj(4, L1, "LIT", dobj, "owned_literals"), Obj(5, L2, "LIT", dobj, "owned_literals")]
                        cx.append(("owned_literals", [_item(rng, L1, "LIT"), _item(rng, L2, "LIT", hint=True)]))
                    if members:
                        cx.append(("realized_classes", [Item(ref=_prom(1, T))]))
                    rng.shuffle(cx)
                    simple = [(refattr, _prom(1, T))]
                    if rng.random() < 0.5:
                        simple.insert(rng.randint(0, 1), ("description", "waits for %s" % T))
                    getattr(use, rng.choice(["extend", "extend", "create"])).append(
                        (lst, [_item(rng, D, typ, decl=pD, simple=simple, complex=cx, hint=hint)]))
                instrs.append(use)
            if pD is not None:
                plan.promise_target[pD] = D
            if pidmode == "parent":
                user = Instr(_prom(pD, D))
                user.set.append(("summary", "set through the promise"))
                instrs.append(user)
            rng.shuffle(instrs)
            plan.instrs, plan.objs = instrs, objs
            plan.features = {"matrix", f"matrix:{kind}", f"matrix:promise_id-{pidmode}",
                             "matrix:_type" if hint else "matrix:no-_type"}
            if nested:
                plan.features.add("matrix:nested")
            if members:
                plan.features.add("matrix:list-members")
            if hint and typ in MUST_HINT:
                plan.features.add("matrix:_type-decides-class")
            plans.append(plan)
    return plans


def twin_plans(rng, base: Base):
    """two or three VALUE-EQUAL actions that wait for the same promise: identical creations (named and unnamed; in
    one list of one instruction and as identical instructions), identical instructions below a promised parent
    (extend and set), identical `set`s of a reference, identical sync entries, the same !promise listed twice.
    Every requested action has to happen as often as it is written down, whatever the order of the instructions."""
    PK, F, C = base.key["PK"], base.key["F"], base.key["C"]
    nm = _fresh(base, "tw")
    plans = []

    def done(plan, instrs, objs, feature, m):
        rng.shuffle(instrs)
        plan.instrs, plan.objs = instrs, objs
        plan.features = {"twins", f"twins:{feature}", f"twins:x{m}"}
        plans.append(plan)

    def decl_class(plan, objs):
        G, T = next(nm), next(nm)
        gobj = Obj(0, G, "PK", ("base", "PK"), "packages")
        objs += [gobj, Obj(1, T, "K", gobj, "classes")]
        ins = Instr(Ref("obj", PK))
        ins.extend.append(("packages", [_item(rng, G, "PK", complex=[("classes", [_item(rng, T, "K", decl=1)])])]))
        plan.promise_target[1] = T
        return ins, T

    for m in (2, 3):
        # identical creations that wait for the value of an attribute
        for typ, split, noname in (("FE", False, False), ("FE", False, True), ("FE", True, False), ("K", False, False),
                                   ("K", True, False), ("EN", False, False)):
            plan, objs, instrs = Plan(), [], []
            D = "" if noname else next(nm)
            if typ == "FE":
                ni, no = next(nm), next(nm)
                objs += [Obj(0, ni, "IP", ("base", "F"), "inputs"), Obj(1, no, "OP", ("base", "F"), "outputs")]
                ins = Instr(Ref("obj", F))
                ins.extend += [("inputs", [_item(rng, ni, "IP", decl=1)]), ("outputs", [_item(rng, no, "OP", decl=3)])]
                instrs.append(ins)
                plan.promise_target = {1: ni, 3: no}
                parent, lst, simple = F, "exchanges", [("source", _prom(3, no)), ("target", _prom(1, ni))]
                if not noname:
                    plan.ref_expect = [(D, ni), (D, no)]
            else:
                ins, T = decl_class(plan, objs)
                instrs.append(ins)
                parent = PK
                lst, simple = ("classes", [("super", _prom(1, T))]) if typ == "K" else ("datatypes", [("domain_type", _prom(1, T))])
                plan.ref_expect = [(D, T)]
            hint, ko, op = rng.random() < 0.5, rng.choice([None, 1, 2, 3]), rng.choice(["extend", "extend", "create"])

            def twin():
                it = Item(name=D, typ=typ, simple=list(simple), hint=hint)
                it.noname, it.keyorder = noname, ko
                return it
            objs += [Obj(10 + j, D, typ, ("base", "F" if typ == "FE" else "PK"), lst) for j in range(m)]
            if split:
                for _ in range(m):
                    use = Instr(Ref("obj", parent)); getattr(use, op).append((lst, [twin()])); instrs.append(use)
            else:
                use = Instr(Ref("obj", parent)); getattr(use, op).append((lst, [twin() for _ in range(m)])); instrs.append(use)
            done(plan, instrs, objs, f"create-{typ}" + ("-unnamed" if noname else "") + ("-as-instructions" if split else ""), m)
        # identical instructions below a parent that is a promise: extend, and set
        for what in ("extend", "set", "set-reference"):
            plan, objs, instrs = Plan(), [], []
            if what == "set-reference":
                ins, T = decl_class(plan, objs)
                instrs.append(ins)
                B = next(nm)
                objs.append(Obj(5, B, "K", ("base", "PK"), "classes"))
                ins = Instr(Ref("obj", PK)); ins.extend.append(("classes", [_item(rng, B, "K", decl=2)])); instrs.append(ins)
                plan.promise_target[2] = B
                plan.ref_expect = [(B, T)]
                for _ in range(m):
                    u = Instr(rng.choice([_prom(2, B), _prom(2, B)])); u.set.append(("super", _prom(1, T))); instrs.append(u)
            else:
                f = next(nm)
                objs.append(Obj(0, f, "F", ("base", "F"), "functions"))
                ins = Instr(Ref("obj", F)); ins.extend.append(("functions", [_item(rng, f, "F", decl=1)])); instrs.append(ins)
                plan.promise_target = {1: f}
                sub = next(nm)
                for j in range(m):
                    u = Instr(_prom(1, f))
                    if what == "extend":
                        u.extend.append(("functions", [Item(name=sub, typ="F")]))
                        objs.append(Obj(10 + j, sub, "F", objs[0], "functions"))
                    else:
                        u.set.append(("summary", "said twice"))
                    instrs.append(u)
            done(plan, instrs, objs, f"instruction-{what}", m)
        # identical sync entries in one list: the first creates the object, the others find it
        plan, objs, instrs = Plan(), [], []
        ins, T = decl_class(plan, objs)
        instrs.append(ins)
        D = next(nm)
        objs.append(Obj(10, D, "K", ("base", "PK"), "classes"))
        hint = rng.random() < 0.5
        use = Instr(Ref("obj", PK))
        use.sync.append(("classes", [SItem(j > 0, None, D, "K", [], [("super", _prom(1, T))], hint=hint) for j in range(m)]))
        instrs.append(use)
        plan.ref_expect = [(D, T)]
        done(plan, instrs, objs, "sync-entries", m)
        # the same promise listed twice in a list of references (extend, set): the implementation may refuse the second
        # reference — then it has to refuse it in every order
        for op in ("extend", "set"):
            plan, objs, instrs = Plan(), [], []
            f = next(nm)
            objs.append(Obj(0, f, "F", ("base", "F"), "functions"))
            ins = Instr(Ref("obj", F)); ins.extend.append(("functions", [_item(rng, f, "F", decl=1)])); instrs.append(ins)
            plan.promise_target = {1: f}
            use = Instr(Ref("obj", C))
            if op == "extend":
                use.extend.append(("allocated_functions", [Item(ref=_prom(1, f)) for _ in range(m)]))
            else:
                use.set.append(("allocated_functions", [_prom(1, f) for _ in range(m)]))
            instrs.append(use)
            plan.expect, plan.model = "same", False
            done(plan, instrs, objs, f"reference-{op}", m)
    return plans


def has_unstable_list(plan: Plan) -> bool:
    """some list receives a deferrable member that is not its last member"""
    def chk(members):
        for i, mbr in enumerate(members):
            if mbr.deferrable() and i != len(members) - 1:
                return True
        return False

    def walk(it):
        if isinstance(it, Item) and it.ref is None:
            for _, its in it.complex:
                if chk(its) or any(walk(x) for x in its):
                    return True
        return False
    for ins in plan.instrs:
        for _, its in ins.create + ins.extend:
            if chk(its) or any(walk(x) for x in its):
                return True
        for _, xs in ins.sync:
            if chk(xs):
                return True
    return False


# ------------------------------------------------------------------ running the implementation
class Tracer:
    """Observes decl.apply without touching the source: the private signal class, the
    builtins the module resolves through its globals, and the coupled-list front end."""

    def __init__(self, base: Base):
        self.base = base
        self.events = []

    def key(self, obj):
        u = getattr(obj, "uuid", None)
        if u in self.base.ids:
            return u
        return getattr(obj, "name", "?")

    def __enter__(self):
        from capellambse import decl
        import capellambse.model as M
        tr = self
        self.decl, self.M = decl, M
        self.orig_sig = decl._UnresolvablePromise

        class Sig(self.orig_sig):
            def __init__(self, *a):
                super().__init__(*a)
                p = a[0].identifier if a else "?"
                tr.events.append([0, int(p[1:]) if re.fullmatch(r"p\d+", p) else -1])
        decl._UnresolvablePromise = Sig
        self.orig_create = M.ElementListCouplingMixin.create
        self.orig_insert = M.ElementListCouplingMixin.insert

        def create(lst, *a, **kw):
            tr.events.append([1, kw.get("name", "")])
            return tr.orig_create(lst, *a, **kw)

        def insert(lst, index, value):
            tr.events.append([2, tr.key(lst._parent), type(lst)._accessor.__name__, tr.key(value)])
            return tr.orig_insert(lst, index, value)
        M.ElementListCouplingMixin.create = create
        M.ElementListCouplingMixin.insert = insert

        def _setattr(obj, attr, value):
            tr.events.append([3, tr.key(obj), attr])
            setattr(obj, attr, value)
        decl.setattr = _setattr
        return self

    def __exit__(self, *exc):
        self.decl._UnresolvablePromise = self.orig_sig
        self.M.ElementListCouplingMixin.create = self.orig_create
        self.M.ElementListCouplingMixin.insert = self.orig_insert
        del self.decl.setattr
        return False


def canon_tree(model, base_ids, ordered=True) -> str:
    """UUID-free canonical text of all trees, by a raw lxml walk (no capellambse code)."""
    roots = [(str(k), tr.root) for k, tr in sorted(model._loader.trees.items(), key=lambda kv: str(kv[0]))]
    tok: dict[str, str] = {}

    def lt(el):
        return el.tag.rsplit("}", 1)[-1]

    def walk_ids(el, path):
        # named elements: token = path of names (independent of the position among differently named siblings)
        i = el.get("id")
        if i and i not in base_ids:
            tok[i] = path
        counts: dict = {}
        for ch in el:
            if not isinstance(ch.tag, str) or not ch.get("name"):
                continue
            k = (lt(ch), ch.get(XSI_TYPE), ch.get("name"))
            j = counts.get(k, 0)
            counts[k] = j + 1
            walk_ids(ch, f"{path}/{k[0]}:{k[1]}:{k[2]!r}#{j}")

    def walk_unnamed(el, path):
        # unnamed elements (links, allocations): token = what they say, not where they stand
        counts: dict = {}
        for ch in el:
            if not isinstance(ch.tag, str):
                continue
            if ch.get("name"):
                walk_unnamed(ch, tok.get(ch.get("id"), path + "/" + lt(ch) + ":" + repr(ch.get("name"))))
                continue
            sig = (lt(ch), ch.get(XSI_TYPE), tuple(sorted((k, sub(v)) for k, v in ch.attrib.items() if k != "id")))
            j = counts.get(sig, 0)
            counts[sig] = j + 1
            p2 = f"{path}/{sig!r}#{j}"
            i = ch.get("id")
            if i and i not in base_ids:
                tok[i] = p2
            walk_unnamed(ch, p2)

    def sub(v):
        return UUID_RE.sub(lambda m: "<" + tok[m.group(0)] + ">" if m.group(0) in tok else m.group(0), v)
    for name, r in roots:
        walk_ids(r, name)
    for name, r in roots:
        walk_unnamed(r, name)

    def ser(el):
        attrs = " ".join(f"{k}={sub(v)!r}" for k, v in sorted(el.attrib.items()))
        # children are grouped by tag (= containment feature): the interleaving of different features
        # is not part of the semantic tree, the order inside one feature is
        kids = [(lt(ch), ser(ch)) for ch in el if isinstance(ch.tag, str)]
        kids.sort(key=(lambda k: k[0]) if ordered else None)
        kids = [k[1] for k in kids]
        return f"<{lt(el)} {attrs} {(el.text or '').strip()!r}>" + "".join(kids) + "</>"
    return "\n".join(ser(r) for _, r in roots)


def raw_find(model, base_ids, key):
    """the XML element designated by a key: the id of a base object, or the unique name of a created one"""
    for tr in model._loader.trees.values():
        for el in tr.root.iter():
            if not isinstance(el.tag, str):
                continue
            if el.get("id") == key or (el.get("name") == key and el.get("id") not in base_ids):
                return el
    return None


def raw_count(model, base_ids, typ, name) -> int:
    """how many elements of the class `typ` with this name ("" = no name) the document added, read from the raw XML"""
    n = 0
    for tr in model._loader.trees.values():
        for el in tr.root.iter():
            if not isinstance(el.tag, str) or el.get("id") in base_ids:
                continue
            xt = el.get(XSI_TYPE)
            if xt is not None and xt.rsplit(":", 1)[-1] == TYPEHINT[typ] and (el.get("name") or "") == name:
                n += 1
    return n


def raw_list_order(model, base_ids, owner_key, member_keys):
    """the members (as keys) that the unnamed direct children of the owner element (allocation / link
    elements) point at, in document order — what a list-valued `set` leaves behind, read from the raw XML"""
    o = raw_find(model, base_ids, owner_key)
    if o is None:
        return None
    ids = {}
    for k in member_keys:
        el = raw_find(model, base_ids, k)
        if el is None:
            return None
        ids[el.get("id")] = k
    out = []
    for c in o:
        if not isinstance(c.tag, str) or c.get("name"):
            continue
        for a, v in c.attrib.items():
            if a == "id":
                continue
            for m_ in UUID_RE.findall(v):
                if m_ in ids and m_ != o.get("id"):
                    out.append(ids[m_])
    return out


def raw_refs_ok(model, base_ids, owner_key, target_key) -> bool:
    """the element designated by owner_key mentions the id of the element designated by target_key
    in its own attributes or in those of its unnamed direct children"""
    def find(key):
        return raw_find(model, base_ids, key)
    o, t = find(owner_key), find(target_key)
    if o is None or t is None:
        return False
    tid = t.get("id")
    els = [o] + [c for c in o if isinstance(c.tag, str) and not c.get("name")]
    return any(tid in v for e in els for v in e.attrib.values())


def run_impl(base: Base, instrs: list[Instr], obs_l, obs_v):
    """apply the document to a fresh copy of the base model; returns (output for the correspondence, extras)"""
    from capellambse import decl
    import yaml
    # decl.dump sorts mapping keys; dumping with the same Dumper but unsorted keys also exercises other key orders
    text = yaml.dump([i.yaml() for i in instrs], Dumper=decl.YDMDumper, sort_keys=False)
    model = base.load()
    with Tracer(base) as tr:
        try:
            res = decl.apply(model, io.StringIO(text))
            status = 0
        except BaseException as e:  # noqa: BLE001  (the private signal derives from BaseException)
            if isinstance(e, (KeyboardInterrupt, SystemExit)):
                raise
            status = err_of(e)
            res = None
            exc = e
    extras = {"model": model, "text": text}
    if status != 0:
        extras["exc"] = repr(exc)[:300]
        return [status, tr.events, [], [], []], extras
    pmap = [[int(p.identifier[1:]), tr.key(o)] for p, o in res.items()]
    extras["pmap"] = pmap
    # touched cells through the API
    objs = {}
    for t, o in base.objs.items():
        objs[o.uuid] = model.by_uuid(o.uuid)

    def collect(o, typ):
        for attr, ct in SCHEMA[typ]["lists"].items():
            for x in getattr(o, attr):
                k = tr.key(x)
                if k not in base.ids and k not in objs:
                    objs[k] = x
                    collect(x, ct)
    for t, o in base.objs.items():
        collect(objs[o.uuid], t)
    for k in {k for k, _ in list(obs_l) + list(obs_v)}:
        if k not in objs and k in base.ids:
            objs[k] = model.by_uuid(k)
    lists = []
    for k, a in obs_l:
        o = objs.get(k)
        lists.append([tr.key(x) for x in getattr(o, a)] if o is not None else Err("KeyError"))
    vals = []
    for k, a in obs_v:
        o = objs.get(k)
        if o is None:
            vals.append(Err("KeyError"))
            continue
        v = getattr(o, a)
        if v is None or v == "" or (isinstance(v, str) and base.init_vals.get((k, a)) == str(v)):
            # unset strings read back as "" — the model reports None for a never-written cell
            vals.append(None)
        elif isinstance(v, str):
            vals.append([0, str(v)])
        else:
            vals.append([1, tr.key(v)])
    return [status, tr.events, pmap, lists, vals], extras


def observed_cells(plan: Plan, base: Base):
    obs_l, obs_v = [], []
    for t in base.objs:
        for a in list(SCHEMA[t]["lists"]) + list(SCHEMA[t]["reflists"]):
            obs_l.append((base.key[t], a))
    for t in ("F",):
        obs_v.append((base.key[t], "summary"))
    for u in plan.found_keys:
        for a in STRS:
            if (u, a) not in obs_v:
                obs_v.append((u, a))
    for o in plan.objs:
        for a in list(SCHEMA[o.typ]["lists"]) + list(SCHEMA[o.typ]["reflists"]):
            obs_l.append((o.key, a))
        for a in STRS + list(SCHEMA[o.typ]["refs"]):
            obs_v.append((o.key, a))
    return obs_l, obs_v


def perms_of(rng, n, limit_full, nrandom):
    if n <= limit_full:
        return list(itertools.permutations(range(n)))
    out = {tuple(range(n)), tuple(reversed(range(n)))}
    while len(out) < min(nrandom, math.factorial(n)):
        p = list(range(n))
        rng.shuffle(p)
        out.add(tuple(p))
    return sorted(out)


def run(chk: lib.Check):
    logging.disable(logging.CRITICAL)
    from capellambse import decl  # noqa: F401
    chk.prove()
    quick = chk.tier == "quick"
    rng = chk.rng
    bases = {"empty52": Base("empty52")}
    for tag in (["melody52"] if quick else ["melody52", "melody60", "melody50"]):
        bases[tag] = Base(tag)

    cases = []
    descr = []
    feat_count: dict[str, int] = {}
    stats = {"documents": 0, "runs": 0, "exhaustive_docs": 0, "ok": 0, "unf": 0, "dup": 0, "other_error": 0,
             "max_instr": 0, "unstable_docs": 0, "deferrals": 0}
    size_hist: dict[int, int] = {}

    def one_document(plan: Plan, base: Base, limit_full, nrandom):
        stats["documents"] += 1
        n = len(plan.instrs)
        size_hist[n] = size_hist.get(n, 0) + 1
        stats["max_instr"] = max(stats["max_instr"], n)
        for f in plan.features:
            feat_count[f] = feat_count.get(f, 0) + 1
        obs_l, obs_v = observed_cells(plan, base)
        perms = perms_of(rng, n, limit_full, nrandom)
        if n <= limit_full:
            stats["exhaustive_docs"] += 1
        first = None
        first_cls = None
        want = {}
        for o in plan.objs:
            want[(o.typ, o.key)] = want.get((o.typ, o.key), 0) + 1
        unstable = has_unstable_list(plan)
        if unstable:
            stats["unstable_docs"] += 1
        for perm in perms:
            instrs = [plan.instrs[i] for i in perm]
            out, ex = run_impl(base, instrs, obs_l, obs_v)
            stats["runs"] += 1
            stats["deferrals"] += sum(1 for e in out[1] if e[0] == 0)
            inp = [[list(c) for c in base.init], [i.val() for i in instrs], [list(c) for c in obs_l], [list(c) for c in obs_v]]
            if plan.model:
                cases.append((inp, out))
                descr.append({"model": base.tag, "perm": list(perm), "yaml": ex["text"], "error": ex.get("exc")})
            key = f"{base.tag}:{hash_text(ex['text'])}"
            chk.note_case(key, nontrivial=any(e[0] == 0 for e in out[1]))
            status = out[0]
            cls = "ok" if status == 0 else ("unf" if status == Err("UnfulfilledPromisesError") else
                                            "dup" if status == Err("ValueError") else "other")
            stats[cls if cls != "other" else "other_error"] += 1
            replay = {"model": base.tag, "yaml": ex["text"], "perm": list(perm), "expected": plan.expect,
                      "outcome": str(status), "error": ex.get("exc")}
            # ---- oracle 0: whatever the outcome is (success or a certain error), it is the same for every order
            if first_cls is None:
                first_cls = (perm, str(status), ex["text"])
            elif first_cls[1] != str(status) and (plan.expect == "same" or status == 0 or first_cls[1] == "0"):
                replay["other_perm"], replay["other_yaml"], replay["other_outcome"] = list(first_cls[0]), first_cls[2], first_cls[1]
                chk.violation(f"outcome-differs:{key}", f"the document ends as {status!r} ({ex.get('exc')}) in this order of its "
                              f"instructions and as {first_cls[1]} in another", replay)
                continue
            # ---- oracle 1: the outcome class the generator intended (undeclared -> Unfulfilled, duplicate -> ValueError)
            if plan.expect != "same" and cls != plan.expect and not (plan.expect != "ok" and cls != "ok"):
                what = {"unf": "a reference to an undeclared promise", "dup": "a promise id declared twice",
                        "ok": "a well-formed document"}[plan.expect]
                chk.violation(f"outcome:{plan.expect}->{cls}:{key}",
                              f"{what} ended as {status!r} ({ex.get('exc')}) instead of {plan.expect}", replay)
                continue
            if cls != "ok":
                continue
            # ---- oracle 2: promise map and reference targets
            got = {p: k for p, k in ex["pmap"]}
            if got != plan.promise_target:
                chk.violation(f"promise-map:{key}", f"apply() returned {got}, declared {plan.promise_target}", replay)
            for ok_, tk in plan.ref_expect:
                if not raw_refs_ok(ex["model"], base.ids, ok_, tk):
                    chk.violation(f"misdirected:{key}", f"object {ok_!r} does not reference {tk!r} in the XML", replay)
                    break
            # ---- oracle 2a: every requested object exists, as often as the document asks for it and with the class
            #      its list / its `_type` key says (raw XML: xsi:type and name of the added elements)
            for (typ_, key_), n_ in want.items():
                got_n = raw_count(ex["model"], base.ids, typ_, key_)
                if got_n != n_:
                    chk.violation(f"object-count:{key}", f"the document creates {n_} object(s) of class {TYPEHINT[typ_]} named {key_!r}, "
                                  f"the XML has {got_n}", replay)
                    break
            # ---- oracle 2b: a list-valued `set` leaves exactly its members, in the order the document lists them
            for ok_, attr_, keys_ in plan.list_expect:
                got_l = raw_list_order(ex["model"], base.ids, ok_, keys_)
                if got_l != keys_:
                    chk.violation(f"set-list-order:{key}", f"`set` of {attr_} of {ok_!r} to the list {keys_} left {got_l} in the XML "
                                  "(a list value has to be resolved and written as a whole)", replay)
                    break
            # ---- oracle 3: same canonical tree for every permutation
            c_ord = canon_tree(ex["model"], base.ids, ordered=True)
            if first is None:
                first = (perm, c_ord, canon_tree(ex["model"], base.ids, ordered=False), ex["text"])
            elif c_ord != first[1]:
                c_un = canon_tree(ex["model"], base.ids, ordered=False)
                replay["other_perm"] = list(first[0])
                replay["other_yaml"] = first[3]
                if c_un == first[2] and unstable:
                    chk.violation("sibling-order:deferred-member",
                                  "a list member that waits for a promise is appended after its later siblings: "
                                  "the order inside the list depends on the order of the instructions", replay)
                elif c_un == first[2]:
                    chk.violation(f"sibling-order:unexpected:{key}",
                                  "list order differs between two instruction orders although no list has a deferrable non-last member", replay)
                else:
                    chk.violation(f"tree-differs:{key}", "the resulting model differs between two instruction orders", replay)

    def hash_text(s):
        import hashlib
        return hashlib.sha1(s.encode()).hexdigest()[:12]

    # ---------------- streams
    limit_full = 4 if quick else 5
    nrandom = 12 if quick else 60
    ndocs = 56 if quick else 300
    for d in range(ndocs):
        tag = "empty52" if (d % 5) else rng.choice([t for t in bases if t != "empty52"])
        base = bases[tag]
        n = rng.choice([2, 3, 4, 5, 6, 8, 10] if quick else [2, 3, 4, 5, 6, 7, 8, 10, 12, 14])
        r = rng.random()
        malform = "unf" if r < 0.12 else ("dup" if r < 0.24 else None)
        plan = gen_plan(rng, base, n, stable=True, malform=malform)
        # exhaustive permutation is bounded by the number of instructions; prefer documents that fit
        lf = limit_full if (tag == "empty52") else min(limit_full, 3 if quick else 4)
        one_document(plan, base, lf, nrandom if tag == "empty52" else max(4, nrandom // 6))
    # thorough: documents with exactly 6 instructions under all 720 permutations
    if not quick:
        done = 0
        for _ in range(400):
            if done >= 10:
                break
            plan = gen_plan(rng, bases["empty52"], rng.choice([4, 5, 6, 7]), stable=True,
                            malform=rng.choice([None, None, None, "unf", "dup"]))
            if len(plan.instrs) == 6:
                one_document(plan, bases["empty52"], 6, 720)
                done += 1
    # the duplicate stream: every pair of origins of the two declarations, on small documents (all permutations)
    for variant in ["new+extend", "new+sync", "new+found", "found+new", "found+found-same", "found+found-same", "found+found-other"]:
        for tag in (["empty52"] if variant != "found+found-other" else [t for t in bases if t != "empty52"][:1]):
            plan = gen_plan(rng, bases[tag], rng.choice([1, 2, 3]), stable=True, malform="dup",
                            feature_bias={"dup": variant, "set-list": 0.2})
            one_document(plan, bases[tag], limit_full, 8)
    # the option matrix of a creation that has to wait, and value-equal actions waiting for the same promise
    for plan in option_matrix(rng, bases["empty52"]):
        one_document(plan, bases["empty52"], limit_full, 8)
    for plan in twin_plans(rng, bases["empty52"]):
        one_document(plan, bases["empty52"], limit_full, 8)
    other = [t for t in bases if t != "empty52"][0]
    for plan in rng.sample(option_matrix(rng, bases[other]), 3 if quick else 12) + rng.sample(twin_plans(rng, bases[other]), 2 if quick else 10):
        one_document(plan, bases[other], 2, 3)
    # the unstable stream (known finding: sibling order)
    for d in range(8 if quick else 40):
        base = bases["empty52"]
        plan = gen_plan(rng, base, rng.choice([4, 6, 8]), stable=False)
        one_document(plan, base, 3 if quick else 4, 8 if quick else 30)

    # the nested-sync stream (oracle only: the model's sync entries have no nested sync).  A sync entry that
    # creates its object from find + set with a promise-valued set and carries a nested sync.
    def nested_sync_doc(base, k):
        from capellambse import decl as D
        nm = lambda s_: f"ns{k}{s_}"
        i_user = {"parent": D.UUIDReference(base.key["PK"]),
                  "sync": {"classes": [{"find": {"name": nm("K")}, "set": {"super": D.Promise("pS")},
                                        "sync": {"owned_properties": [{"find": {"name": nm("prop")}}]}}]}}
        i_decl = {"parent": D.UUIDReference(base.key["PK"]),
                  "extend": {"packages": [{"name": nm("G"), "classes": [{"name": nm("S"), "promise_id": "pS"}]}]}}
        return [i_user, i_decl]
    import copy
    import yaml as _yaml
    from capellambse import decl as _decl
    for k, tag in enumerate(bases):
        base = bases[tag]
        canon = []
        for perm in ([0, 1], [1, 0]):
            doc = nested_sync_doc(base, k)
            text = _yaml.dump([copy.deepcopy(doc[i]) for i in perm], Dumper=_decl.YDMDumper, sort_keys=False)
            model = base.load()
            try:
                _decl.apply(model, io.StringIO(text))
                canon.append((canon_tree(model, base.ids), text))
            except BaseException as e:  # noqa: BLE001
                canon.append((f"ERR {type(e).__name__}", text))
            stats["runs"] += 1
            chk.note_case(("nested-sync", tag, tuple(perm)))
        if canon[0][0] != canon[1][0]:
            ndup = [c[0].count(f"'ns{k}K'") for c in canon]
            key = "sync-deferred-create:duplicate-object" if (not canon[0][0].startswith("ERR") and not canon[1][0].startswith("ERR")
                                                                   and ndup[0] != ndup[1]) else f"nested-sync:differs:{tag}"
            chk.violation(key, "a sync entry with a promise-valued 'set' and a nested 'sync' gives different models for the two orders "
                               f"of its instructions (occurrences of the class name in the tree: {ndup})",
                          {"model": tag, "yaml": canon[0][1], "other_yaml": canon[1][1]})
    feat_count["nested-sync-gadget"] = len(bases)

    chk.coverage["documents"] = stats
    chk.coverage["instructions_per_document"] = {str(k): v for k, v in sorted(size_hist.items())}
    chk.coverage["features"] = dict(sorted(feat_count.items()))
    chk.coverage["rule"] = ("generated documents over LA functions/ports/exchanges/components/packages/classes/properties; every "
                            "permutation of the instructions for documents with <= %d instructions (thorough: also 10 documents with 6 instructions, 720 permutations each), %d random permutations beyond; "
                            "models: %s; plus, under every permutation, the option matrix of a waiting creation (_type x promise_id use x nested "
                            "creations x list members x extend/create/sync, single- and multi-class lists) and documents with 2 or 3 value-equal "
                            "actions waiting for the same promise; non-trivial = at least one deferral happened" % (limit_full, nrandom, ", ".join(bases)))
    chk.coverage["exhaustive"] = True
    if cases:
        k = next((i for i, c in enumerate(cases) if any(e[0] == 0 for e in c[1][1]) and c[1][0] == 0), 0)
        chk.samples.append({"yaml": descr[k]["yaml"], "impl_trace": cases[k][1][1], "promise_map": cases[k][1][2]})
    chk.correspond("From V Require Import Model.Decl.", "w_apply", cases, tag="C12_apply", shard=150,
                   describe=lambda i: descr[i])
    chk.assumptions += [
        "objects are identified by their unique name (created) or UUID (base model); !find directives are treated as static "
        "references plus the promises they mention (find_stable: the generator only emits finds whose match set does not depend on the order)",
        "sync entries in C12 documents are restricted to find-by-name with set values and a promise id (found/not-found known statically: "
        "matched entries aim at objects of the base model whose name is unique in their list, created ones carry fresh names)",
        "a list-valued `set` is one action (clear + appends) that waits for the first unknown member; lists inside a created sync entry are "
        "modelled as per-member appends (c_listattrs; generated by the option matrix only)",
        "objects with equal names (value-equal creations) are one key in the model: its lists hold the key once per creation (multiplicity is "
        "kept: deferred / executed actions are lists), the raw-XML oracle counts the elements; `_type` is outside the model (oracle: xsi:type); "
        "the same !promise listed twice in a reference list is compared across orders by the oracle only (the implementation refuses duplicates)",
        "harness abstraction document -> val encoding, Tracer (monkeypatched signal class / setattr / coupled list front end)",
    ]


if __name__ == "__main__":
    lib.main("C12", run)
