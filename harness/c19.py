"""C19 — Diagram cache lookups return the cached image of exactly that diagram.

A. synthetic converter chains through the real __load_cache / _run_converter_chain / _walk_converters vs Model/DiagCache.v.
B. the real render(): all cache-file subsets x formats x fallback x ways of giving the cache, three models per specification.
D. the cache handle as an OBJECT and as a LOCATION:
   D1 every class satisfying the FileHandler interface (a plain dict-backed one, capellambse's MemoryFileHandler with and
      without subdir, a subclass of it, handlers with container semantics: __len__ = number of files, and __len__ 0 /
      __bool__ False / __contains__) in every state: empty at load time and filled later, filled at load time and
      changed / emptied later - the model must use exactly that object, and every lookup sees its current content;
   D2 every way of naming a location (str, Path, URL, dict, model-info mapping, LocalFileHandler / get_filehandler
      instance) x the root (the model's own path as given - directory str, Path, .aird file -, the model's directory, a
      sub-directory of it, elsewhere) x subdir (absent / given), with files of distinguishable content planted in the
      configured place AND in the decoy places (next to the model, the cache root when a subdir is configured, a sibling
      sub-directory, the sub-directory of other roots); a second pass removes diagram A's files from the configured place
      only.  The oracle names the file that was served.
C. (thorough) every diagram of the model as subject, random cache contents.
"""
from __future__ import annotations

import base64
import copy
import io
import itertools
import os
import pathlib
import re
import shutil
import sys
import types

sys.path.insert(0, str(pathlib.Path(__file__).resolve().parent))
import lib
from lib import Err, err_of

sys.path.insert(0, str(lib.VERIF / "tools"))
import gen_diagcache

IMPORTS = "From V Require Import Model.DiagCache."
IMPORTS_R = "From V Require Import Model.DiagCache Model.DiagCacheRender."
FAIL_CLASSES = {1: KeyError, 2: ValueError, 7: FileNotFoundError, 5: RuntimeError}
PNG_STUB = b"\x89PNG-stub:"
MODEL_DIR = "tests/data/melodymodel/5_0"
AIRD = "Melody Model Test.aird"


def code(e: Err) -> int:
    return lib.ERRS[e.name]


# ------------------------------------------------------------------ synthetic converters
def mk_conv(cid: int, ext, fc: bool, kind: str, cfail: int | None, ffail: int | None):
    """A converter object the way diagram.py sees one: class with classmethod convert, or a
    plain callable; optional filename_extension / from_cache."""
    def do_convert(d):
        if cfail:
            raise FAIL_CLASSES[cfail](f"conv {cid}")
        return [cid, d]

    def do_fc(b):
        if ffail:
            raise FAIL_CLASSES[ffail](f"from_cache {cid}")
        return [cid, bytes(b)]

    if kind == "class":
        ns = {"convert": staticmethod(do_convert)}
        if ext is not None:
            ns["filename_extension"] = ext
        if fc:
            ns["from_cache"] = staticmethod(do_fc)
        obj = type(f"Conv{cid}", (), ns)
    else:
        def obj(d):
            return do_convert(d)
        if ext is not None:
            obj.filename_extension = ext
        if fc:
            obj.from_cache = do_fc
    obj._cid = cid
    return obj


def outcome(fn):
    try:
        return fn()
    except Exception as e:  # noqa: BLE001
        return err_of(e)


# ------------------------------------------------------------------ independent inverse of the real converters
class Symbolizer:
    """Maps a concrete render result back to `[converter id, [converter id, ... source]]` by
    undoing each real converter textually (no capellambse code)."""

    def __init__(self, ids: dict[str, int]):
        self.ids = ids
        self.sources: dict[object, object] = {}   # concrete base value -> symbol

    def sym(self, v, depth=0):
        import markupsafe
        ids = self.ids
        if depth > 8:
            return "too-deep"
        if type(v).__name__ == "SVGDiagram":
            key = ("svgdiagram", id(v))
            return self.sources.get(key, "foreign-svgdiagram")
        if isinstance(v, markupsafe.Markup):
            m = re.fullmatch(r'<img src="(.*)"/>', str(v), re.S)
            if m:
                return [ids["SVGInHTMLIMGFormat"], self.sym(m.group(1), depth + 1)]
            return "unrecognised-markup"
        if isinstance(v, str):
            if ("s", v) in self.sources:
                return self.sources[("s", v)]
            if v.startswith("data:image/svg+xml;base64,"):
                try:
                    inner = base64.standard_b64decode(v[len("data:image/svg+xml;base64,"):]).decode("utf-8")
                except Exception:  # noqa: BLE001
                    return "bad-datauri"
                return [ids["SVGDataURIFormat"], self.sym(inner, depth + 1)]
            m = re.fullmatch(r'<ac:structured-macro ac:macro-id="[0-9a-f-]{36}" ac:name="html" ac:schema-version="1">'
                             r'<ac:plain-text-body><!\[CDATA\[(.*)\]\]></ac:plain-text-body></ac:structured-macro>', v, re.S)
            if m:
                return [ids["ConfluenceSVGFormat"], self.sym(m.group(1), depth + 1)]
            return "unrecognised-str"
        if isinstance(v, (bytes, bytearray)):
            v = bytes(v)
            if ("b", v) in self.sources:
                return self.sources[("b", v)]
            if v.startswith(PNG_STUB):
                try:
                    return [ids["PNGFormat"], self.sym(v[len(PNG_STUB):].decode("utf-8"), depth + 1)]
                except UnicodeDecodeError:
                    return "bad-png-stub"
            if v.startswith(b"\x1b_G") or v == b"":
                png = b""
                chunks = re.findall(rb"\x1b_Ga=T,q=2,f=100,m=([01]);([A-Za-z0-9+/=]*)\x1b\\", v)
                if b"".join(b"\x1b_Ga=T,q=2,f=100,m=" + m + b";" + c + b"\x1b\\" for m, c in chunks) != v:
                    return "bad-termgraphics"
                if chunks and ([m for m, _ in chunks] != [b"1"] * (len(chunks) - 1) + [b"0"]
                               or any(len(c) != 4096 for _, c in chunks[:-1])):
                    return "bad-termgraphics-chunking"
                png = base64.standard_b64decode(b"".join(c for _, c in chunks))
                return [ids["TerminalGraphicsFormat"], self.sym(png, depth + 1)]
            return "unrecognised-bytes"
        return f"unrecognised-{type(v).__name__}"


def run(chk: lib.Check):
    import importlib.metadata as imm

    import capellambse
    from capellambse.filehandler import abc as fhabc
    from capellambse.filehandler import local as fhlocal
    from capellambse.model import diagram as D

    import time
    T = {"t": time.time()}

    def lap(name):
        chk.coverage.setdefault("phase_seconds", {})[name] = round(time.time() - T["t"], 1)
        T["t"] = time.time()
    pr = chk.prove()
    lap("proof")
    quick = chk.tier == "quick"
    rng = chk.rng

    # cairosvg is not installed: a deterministic stand-in so that chains through PNG conversion run
    stub_used = False
    try:
        import cairosvg  # noqa: F401
    except Exception:  # noqa: BLE001
        stub = types.ModuleType("cairosvg")
        stub.svg2png = lambda dg, scale=1.0, **kw: PNG_STUB + (dg.encode("utf-8") if isinstance(dg, str) else bytes(dg))
        sys.modules["cairosvg"] = stub
        stub_used = True
    chk.coverage["png_conversion"] = ("cairosvg absent: svg->png conversion runs against a deterministic stand-in module "
                                      "(prefix + svg bytes); real PNG rasterisation is not exercised") if stub_used else "real cairosvg"

    # ---------------- 0. generated graph == the objects the running code resolves
    G = gen_diagcache.extract(lib.REPO)
    ids = {obj: n["id"] for obj, n in G["nodes"].items()}
    rt_names = sorted(ep.name for ep in imm.entry_points(group="capellambse.diagram.formats"))
    if rt_names != sorted(G["entries"]):
        chk.broken.append(f"tie: entry points at run time {rt_names} != pyproject.toml {sorted(G['entries'])}")
    gcases = []
    for name in rt_names + ["nope", ""]:
        def rt_chain(name=name):
            first = D._find_format_converter(name)
            out, cur, n = [], first, 0
            while cur is not None and n < 50:      # own walk over `depends`
                out.append([ids.get(getattr(cur, "__name__", "?"), 0), getattr(cur, "filename_extension", None),
                            hasattr(cur, "from_cache")])
                cur = getattr(cur, "depends", None)
                n += 1
            return out
        gcases.append((name, outcome(rt_chain)))
        # and the code's own _walk_converters agrees with the plain walk
        r2 = outcome(lambda: [ids.get(getattr(c, "__name__", "?"), 0) for c in D._walk_converters(D._find_format_converter(name))])
        if not isinstance(gcases[-1][1], Err) and r2 != [x[0] for x in gcases[-1][1]]:
            chk.violation(f"walk:{name}", f"_walk_converters({name}) = {r2}, depends chain = {gcases[-1][1]}", {"fmt": name})
    chk.correspond(IMPORTS_R, "w_gen_chain", gcases, tag="C19_graph", describe=lambda i: {"entry point": gcases[i][0]})
    chk.samples.append({"chain of html_img [id, ext, from_cache]": dict(gcases).get("html_img")})

    with lib.scratch("c19-") as tmp:
        mdir = tmp / "model"
        shutil.copytree(lib.REPO / MODEL_DIR, mdir)
        aird = str(mdir / AIRD)

        # ---------------- A. synthetic chains through the real __load_cache / _run_converter_chain / _walk_converters
        class RecHandler(fhabc.FileHandler):
            """dict-backed cache handler that records the names it is asked for"""

            def __init__(self, files: dict[str, bytes]):
                super().__init__("rec:")
                self.files = files
                self.opened: list[str] = []

            def open(self, filename, mode="rb"):
                self.opened.append(str(filename))
                if "w" in mode:
                    raise AssertionError("diagram cache lookups must not write")
                if str(filename) in self.files:
                    return io.BytesIO(self.files[str(filename)])
                raise FileNotFoundError(str(filename))

        rec = RecHandler({})
        m0 = capellambse.MelodyModel(aird, diagram_cache=rec)
        nocache = capellambse.MelodyModel(aird)
        all_dgs = list(m0.diagrams)
        # two cheap, error-free diagrams as subjects
        cand = []
        for i, d in enumerate(nocache.diagrams):
            r = outcome(lambda: d.render("svg"))
            if isinstance(r, str):
                cand.append((len(r), i))
        cand.sort()
        ia, ib = cand[0][1], cand[1][1]
        uu = all_dgs[ia].uuid
        other = all_dgs[ib].uuid
        load_cache = lambda dg, chain: dg._AbstractDiagram__load_cache(chain)

        EXTS = [None, "", ".a", ".b"]
        attrs = [(e, fc) for e in EXTS for fc in (False, True)]
        own_files = [uu + ".a", uu + ".b"]
        lc_cases, lc_desc = [], []

        def add_lc(spec, files, dg=None):
            """spec: list of (cid, ext, fc, kind, cfail, ffail)"""
            dg = dg or all_dgs[ia]
            objs = {}
            chain = []
            for s in spec:
                if s[0] not in objs:
                    objs[s[0]] = mk_conv(*s)
                chain.append(objs[s[0]])
            rec.files = files
            rec.opened = []
            res = outcome(lambda: load_cache(dg, chain))
            opened = list(rec.opened)
            enc_chain = [[s[0], s[1], s[2]] for s in spec]
            seen, cf, ff = set(), [], []
            for s in spec:
                if s[0] in seen:
                    continue
                seen.add(s[0])
                if s[4]:
                    cf.append([s[0], s[4]])
                if s[5]:
                    ff.append([s[0], s[5]])
            lc_cases.append(([enc_chain, cf, ff, [[k, v] for k, v in files.items()], dg.uuid], [opened, res]))
            lc_desc.append({"chain": spec, "files": sorted(files)})
            # independent oracle on the implementation: first cached ancestor, converted forward; only own names
            exp_open, exp = [], Err("KeyError")
            for i, s in enumerate(spec):
                if s[1] and s[2]:
                    fn = dg.uuid + s[1]
                    exp_open.append(fn)
                    if fn in files:
                        first = {}
                        for t_ in spec:
                            first.setdefault(t_[0], t_)
                        try:
                            if first[s[0]][5]:
                                raise FAIL_CLASSES[first[s[0]][5]]()
                            data = [s[0], files[fn]]
                            for t_ in reversed(spec[:i]):
                                if first[t_[0]][4]:
                                    raise FAIL_CLASSES[first[t_[0]][4]]()
                                data = [t_[0], data]
                            exp = data
                        except Exception as e:  # noqa: BLE001
                            exp = err_of(e)
                        break
            nontriv = bool(exp_open)
            chk.note_case(("lc", repr(spec), sorted(files)), nontrivial=nontriv)
            if opened != exp_open or res != exp:
                chk.violation(f"load_cache:{spec!r}:{sorted(files)!r}",
                              f"__load_cache opened {opened} -> {res!r}; expected {exp_open} -> {exp!r}",
                              {"call": "AbstractDiagram.__load_cache", "chain(id,ext,from_cache,kind,convert-raises,from_cache-raises)": spec,
                               "cache_files": sorted(files), "uuid": dg.uuid})

        maxlen = 3 if quick else 4
        contents = {own_files[0]: b"A-a", own_files[1]: b"A-b", other + ".a": b"B-a", other + ".b": b"B-b",
                    "x" + uu + ".a": b"junk"}
        for n in range(0, maxlen + 1):
            for combo in itertools.product(attrs, repeat=n):
                for mask in range(4):
                    files = {f: contents[f] for j, f in enumerate(own_files) if mask >> j & 1}
                    if rng.random() < 0.5:
                        files[other + ".a"] = contents[other + ".a"]
                        files[other + ".b"] = contents[other + ".b"]
                    spec = [(k + 1, e, fc, "class" if (k + mask + n) % 3 else "func", None, None) for k, (e, fc) in enumerate(combo)]
                    add_lc(spec, files)
        n_exh = len(lc_cases)
        for _ in range(600 if quick else 6000):
            n = rng.randint(1, 7)
            spec = []
            for k in range(n):
                cid = rng.randint(1, n) if rng.random() < 0.15 else k + 1
                prev = next((s for s in spec if s[0] == cid), None)
                if prev:
                    spec.append(prev)
                    continue
                e, fc = rng.choice(attrs + [(".a", True), (".b", True), (".a.b", True), ("a", True)])
                spec.append((cid, e, fc, rng.choice(["class", "func"]),
                             rng.choice([None] * 6 + [1, 2, 5, 7]), rng.choice([None] * 6 + [1, 2, 5, 7])))
            pool = own_files + [uu + ".a.b", uu + "a", other + ".a", other + ".b", "x" + uu + ".a", uu]
            files = {f: contents.get(f, f.encode()) for f in pool if rng.random() < 0.4}
            add_lc(spec, files, dg=rng.choice([all_dgs[ia], all_dgs[ib]]))
        chk.correspond(IMPORTS, "w_load_cache", lc_cases, tag="C19_lc", describe=lambda i: lc_desc[i])
        chk.samples.append({"__load_cache case": lc_desc[n_exh - 1], "result": lc_cases[n_exh - 1][1]})
        chk.coverage["load_cache_cases"] = {"exhaustive(len<=%d, ext in %r x from_cache x own-file subsets)" % (maxlen, EXTS): n_exh,
                                            "random(len<=7, repeated converters, raising converters)": len(lc_cases) - n_exh}

        # _run_converter_chain and _walk_converters on synthetic objects
        rc_cases, wk_cases = [], []
        for _ in range(300 if quick else 3000):
            n = rng.randint(0, 6)
            spec = [(k + 1, None, False, rng.choice(["class", "func"]), rng.choice([None] * 5 + [1, 2, 5]), None) for k in range(n)]
            chain = [mk_conv(*s) for s in spec]
            rc_cases.append(([[[s[0], None, False] for s in spec], [[s[0], s[4]] for s in spec if s[4]], b"d"],
                             outcome(lambda: D._run_converter_chain(chain, b"d"))))
            # acyclic depends graph (a cyclic one makes _walk_converters loop forever; excluded by statement)
            objs = [mk_conv(k + 1, rng.choice(EXTS), rng.random() < 0.5, rng.choice(["class", "func"]), None, None) for k in range(n + 1)]
            deps = []
            for k, o in enumerate(objs):
                d = rng.choice([None] + list(range(k + 1, n + 1))) if k < n else None
                if d is not None:
                    o.depends = objs[d]
                deps.append(None if d is None else d + 1)
            g = [[k + 1, getattr(o, "filename_extension", None), hasattr(o, "from_cache"), deps[k]] for k, o in enumerate(objs)]
            start = rng.randint(1, n + 1)
            wk_cases.append(([g, start], outcome(lambda: [c._cid for c in D._walk_converters(objs[start - 1])])))
        chk.correspond(IMPORTS, "w_run_chain", rc_cases, tag="C19_rc")
        chk.correspond(IMPORTS, "w_walk", wk_cases, tag="C19_walk")

        lap("synthetic")
        # convert_format on the registered formats
        S = Symbolizer(ids)
        g_enc = [[n["id"], n["ext"], n["fc"], (G["nodes"][n["dep"]]["id"] if n["dep"] else None)]
                 for _, n in sorted(G["nodes"].items(), key=lambda kv: kv[1]["id"])]
        e_enc = [[name, ids[obj]] for name, obj in sorted(G["entries"].items())]
        sample_data = {"svg": "<svg>D</svg>", "png": b"PNGDATA-D", "datauri_svg": "data:image/svg+xml;base64,RA==",
                       "html_img": "D-html", "svg_confluence": "D-conf", "termgraphics": b"D-term", "svgdiagram": "D-svgd"}
        cf_cases = []
        for src in rt_names:
            data = sample_data.get(src, "D")
            S.sources = {("s", data) if isinstance(data, str) else ("b", bytes(data)): b"D"}
            if src == "svgdiagram":     # the only format whose data is an object: SVGFormat.convert calls .to_string()
                data = types.SimpleNamespace(to_string=lambda: "SVGD-str")
                S.sources = {("s", "SVGD-str"): [ids["SVGFormat"], b"D"]}
            for tgt in rt_names + ["nope"]:
                r = outcome(lambda: D.convert_format(src, tgt, data))
                if src not in G["entries"]:
                    continue
                cf_cases.append(([g_enc, e_enc, ids[G["entries"][src]], tgt, [], b"D"], r if isinstance(r, Err) else b"D" if r is data else S.sym(r)))
        chk.correspond(IMPORTS, "w_convert_format", cf_cases, tag="C19_cf",
                       describe=lambda i: {"convert_format(src id, target)": cf_cases[i][0][2:4]})

        # ---------------- B. the real render(): exhaustive cache configurations
        cdir = tmp / "cache"
        cdir.mkdir()
        da, db = nocache.diagrams[ia], nocache.diagrams[ib]
        fmts: list = rt_names + ["nope", None]
        fresh = {}   # (uuid, fmt) -> value | Err
        for d in (da, db):
            for f in fmts:
                fresh[d.uuid, f] = outcome(lambda: d.render(f))
        # is the internal renderer deterministic across model instances?  (needed to state "equals rendering without a cache")
        nocache2 = capellambse.MelodyModel(aird)
        for f in ("svg", "datauri_svg"):
            if outcome(lambda: nocache2.diagrams[ia].render(f)) != fresh[da.uuid, f]:
                chk.broken.append(f"harness: fresh rendering of {f} is not reproducible across model instances")
        file_content = {
            uu + ".svg": "<svg>Ä-A</svg>".encode("utf-8"), uu + ".png": b"\x89PNG-A\x00\xff",
            other + ".svg": b"<svg>B</svg>", other + ".png": b"\x89PNG-B",
        }
        unrelated = {"index.json": b"[]", "x" + uu + ".svg": b"<svg>x</svg>", uu + ".svg.bak": b"<svg>bak</svg>",
                     uu + ".SVG": b"<svg>upper</svg>", uu: b"<svg>noext</svg>", uu + ".svgz": b"z", uu[:-1] + ".svg": b"<svg>short</svg>",
                     uu + ".datauri_svg": b"no", uu + ".html": b"no"}
        bits = list(file_content)     # 4 bits + 1 bit for the unrelated group
        ALL_WAYS = ["path", "url", "dict", "handler", "same", "modelinfo", "dict-kwargs", "pathlike", "local-handler", "same-handler"]
        WAYS = ALL_WAYS[:5] if quick else ALL_WAYS                      # all 32 file subsets on the first model built from the specification
        REPEAT_ONLY = [w for w in ALL_WAYS if w not in WAYS]            # the REPEAT_MASKS subsets only
        REPEAT_MASKS = [0, 1, 6, 31]                                    # second and third model from the same specification object
        repeat_stats: dict[str, int] = {}

        # runtime chains by own walk (for the oracle), with the names the entry table gives them
        obj_entry = {obj: name for name, obj in G["entries"].items()}

        def own_chain(fmt):
            out, cur = [], D._find_format_converter(fmt)
            while cur is not None:
                out.append(cur)
                cur = getattr(cur, "depends", None)
            return out

        rcases, rdesc = [], []
        stats = {"hit": 0, "miss-error": 0, "miss-fallback": 0, "unknown-format": 0, "no-format": 0, "convert-error": 0}
        opened_log: list[str] = []
        orig_local_open = fhlocal.LocalFileHandler.open
        watch = {"h": None}

        def rec_local_open(self, filename, mode="r"):
            if self is watch["h"]:
                opened_log.append(str(filename))
            return orig_local_open(self, filename, mode)

        def exercise(model, way, allow, rh, target_dir, masks, load):
            subj = [model.diagrams[ia], model.diagrams[ib]]
            assert subj[0].uuid == uu and subj[1].uuid == other
            base_listing = set(os.listdir(target_dir))
            for mask in masks:
                present = {n: file_content[n] for j, n in enumerate(bits) if mask >> j & 1}
                if mask >> 4 & 1:
                    present.update(unrelated)
                if rh is not None:
                    rh.files = dict(present)
                else:
                    for n in set(os.listdir(target_dir)) - base_listing:
                        (target_dir / n).unlink()
                    for n, c in present.items():
                        (target_dir / n).write_bytes(c)
                # what the model is told: every file visible through the handler
                visible = dict(present)
                if way in ("same", "same-handler"):
                    for n in base_listing:
                        if (target_dir / n).is_file():
                            visible[n] = b"model-file"
                for dg in subj:
                    for fmt in fmts:
                        if rh is not None:
                            rh.opened = []
                        opened_log.clear()
                        watch["h"] = model.diagram_cache if rh is None else None
                        fhlocal.LocalFileHandler.open = rec_local_open
                        try:
                            res = outcome(lambda: dg.render(fmt))
                        finally:
                            fhlocal.LocalFileHandler.open = orig_local_open
                        opened = list(rh.opened) if rh is not None else list(opened_log)
                        # ---- symbolic form of the result: ["S"|"B", file name] = text / bytes of a cached file
                        S.sources = {}
                        for n, c in present.items():
                            S.sources[("b", c)] = ["B", n]
                            try:
                                S.sources[("s", c.decode("utf-8"))] = ["S", n]
                            except UnicodeDecodeError:
                                pass
                        fr_svg = fresh[dg.uuid, "svg"]
                        if isinstance(fr_svg, str):
                            S.sources[("s", fr_svg)] = [ids["SVGFormat"], [ids["convert_svgdiagram"], b"fresh"]]
                        if isinstance(res, Err):
                            sres = res
                        elif fmt is None:
                            sres = b"fresh" if type(res).__name__ == "Diagram" else "not-a-diagram"
                        elif type(res).__name__ == "SVGDiagram":
                            sres = [ids["convert_svgdiagram"], b"fresh"]
                        else:
                            sres = S.sym(res)
                        # ---- independent oracle
                        key = f"{way}:allow={allow}:fmt={fmt}:dg={'A' if dg.uuid == uu else 'B'}:files={sorted(present)}" + (f":load={load}" if load > 1 else "")
                        replay = {"way": way, "load_number_from_the_same_specification_object": load, "fallback_render_aird": allow, "fmt": fmt, "diagram_uuid": dg.uuid,
                                  "cache_files": {n: c.decode('latin-1') for n, c in present.items()},
                                  "opened": opened, "result": repr(res)[:300]}
                        exp_open: list[str] = []
                        if fmt is None:
                            kind = "no-format"
                            ok = type(res).__name__ == "Diagram"
                            exp_desc = "the Diagram object"
                        elif fmt not in rt_names:
                            kind = "unknown-format"
                            ok = res == Err("ValueError")
                            exp_desc = "UnknownOutputFormat"
                        else:
                            chain = own_chain(fmt)
                            hit = None
                            for i, cv in enumerate(chain):
                                e = getattr(cv, "filename_extension", None)
                                if e and hasattr(cv, "from_cache"):
                                    exp_open.append(dg.uuid + e)
                                    if dg.uuid + e in visible:
                                        hit = (i, cv, dg.uuid + e)
                                        break
                            if hit:
                                i, cv, fn = hit
                                # expected symbolic value: converters before the hit applied to the file's content
                                exp_sym = [{".svg": "S", ".png": "B"}.get(getattr(cv, "filename_extension", ""), "?"), fn]
                                for c2 in reversed(chain[:i]):
                                    exp_sym = [ids[c2.__name__], exp_sym]
                                kind = "hit"
                                ok = sres == exp_sym
                                exp_desc = f"{fn} converted through {[c2.__name__ for c2 in reversed(chain[:i])]}"
                                # "identical to converting that cached file directly"
                                srcname = obj_entry.get(cv.__name__)
                                if srcname is not None:
                                    direct = outcome(lambda: D.convert_format(srcname, fmt, cv.from_cache(visible[fn])))
                                    same = (direct == res) if not isinstance(res, Err) else (isinstance(direct, Err) and direct == res)
                                    if not same:
                                        ok = False
                                        exp_desc += f"; convert_format({srcname},{fmt}) gives {direct!r:.80}"
                                if isinstance(res, Err):
                                    kind = "convert-error"
                            elif allow:
                                kind = "miss-fallback"
                                fr = fresh[dg.uuid, fmt]
                                ok = (res == fr) if not (isinstance(fr, Err) or isinstance(res, Err)) else (isinstance(fr, Err) and isinstance(res, Err) and fr == res)
                                if type(fr).__name__ == "SVGDiagram":
                                    ok = type(res).__name__ == "SVGDiagram"
                                exp_desc = "the same as rendering without a cache"
                            else:
                                kind = "miss-error"
                                ok = res == Err("RuntimeError")
                                exp_desc = "RuntimeError (not in cache)"
                        stats[kind] += 1
                        foreign = [n for n in opened if not n.startswith(dg.uuid)]
                        if not ok or opened != exp_open or foreign:
                            chk.violation(key, f"render({fmt!r}) of {dg.uuid} with cache {sorted(present)} ({way}, fallback={allow}) "
                                          f"opened {opened} and returned {res!r:.120}; expected to open {exp_open} and return {exp_desc}", replay)
                        chk.note_case(key, nontrivial=bool(present) and fmt in rt_names)
                        # ---- case for the model (a file's content is represented by its name)
                        ftag = lambda n: b"f%d" % sorted(visible).index(n)      # short stand-in for the file's content
                        mres = to_model(sres, ids, ftag)
                        fr_in = fresh[dg.uuid, None]
                        rcases.append(([fmt, [[n, ftag(n)] for n in sorted(visible)], allow, dg.uuid, [], [],
                                        b"fresh" if not isinstance(fr_in, Err) else fr_in], [opened, mres]))
                        rdesc.append({"way": way, "allow": allow, "fmt": fmt, "files": sorted(present), "diagram": dg.uuid})
                # as_<fmt> attribute access agrees with render() whenever render() returns
                for fmt in (rt_names if mask in (0, 1, 2, 5, 12, 31) and load == 1 and len(masks) == 32 else []):
                    dg = subj[0]
                    r1 = outcome(lambda: dg.render(fmt))
                    r2 = outcome(lambda: getattr(dg, "as_" + fmt))
                    if not isinstance(r1, Err) and type(r1).__name__ != "SVGDiagram" and r1 != r2:
                        chk.violation(f"as_{fmt}:{way}:{mask}", f"as_{fmt} differs from render({fmt!r})", {"fmt": fmt, "way": way, "files": sorted(present)})
                    if isinstance(r1, Err) and not isinstance(r2, Err) and fmt in ("svg", "png"):
                        # the documented error image; it must not be anybody's cached file
                        for n, c in visible.items():
                            if (r2 if isinstance(r2, bytes) else str(r2).encode()) == c:
                                chk.violation(f"as_{fmt}-foreign:{way}:{mask}", f"as_{fmt} returned the content of {n} although render() failed",
                                              {"fmt": fmt, "way": way, "files": sorted(present)})
            # clean up the target dir for the next model
            if rh is None:
                for n in set(os.listdir(target_dir)) - base_listing:
                    (target_dir / n).unlink()

        def spec_state(o):
            """what a specification object looks like from outside (the handler classes of the harness own `files`/`opened`)"""
            if isinstance(o, fhabc.FileHandler):
                return (type(o).__name__, sorted((k, repr(v)) for k, v in vars(o).items() if k not in ("files", "opened")))
            if isinstance(o, dict):
                return {k: spec_state(v) for k, v in o.items()}
            return copy.deepcopy(o)

        for way in WAYS + REPEAT_ONLY:
            for allow in (False, True):
                target_dir = mdir if way in ("same", "same-handler") else cdir
                rh = None
                args, kw = (aird,), {"fallback_render_aird": allow}
                if way == "path":
                    spec = str(cdir)
                elif way == "pathlike":
                    spec = cdir
                elif way == "url":
                    spec = cdir.as_uri()
                elif way == "dict":
                    spec = {"path": str(cdir)}
                elif way == "dict-kwargs":          # a mapping with further handler arguments
                    spec = {"path": str(tmp), "subdir": cdir.name}
                elif way == "modelinfo":            # a model-info mapping (capellambse.loadinfo / a JSON file), expanded with **
                    spec = {"path": aird, "diagram_cache": {"path": str(cdir)}, "fallback_render_aird": allow}
                    args, kw = (), spec
                elif way == "handler":
                    spec = rh = RecHandler({})
                elif way == "local-handler":
                    spec = fhlocal.LocalFileHandler(cdir)
                elif way == "same-handler":         # one handler instance is the model's location and the cache
                    spec = fhlocal.LocalFileHandler(mdir)
                    args, kw = (spec,), {"entrypoint": AIRD, "fallback_render_aird": allow}
                else:
                    spec = aird
                if way != "modelinfo":
                    kw["diagram_cache"] = spec
                spec_before = spec_state(spec)
                full = way in WAYS
                # every specification object is used for a second and a third model (reload after save, several models from one
                # model-info): each of them must have the cache, and the object must come out of it unchanged
                for load in (1, 2, 3):
                    masks = list(range(32)) if (full and load == 1) else REPEAT_MASKS if load == 1 else REPEAT_MASKS[-3:]
                    try:
                        model = capellambse.MelodyModel(*args, **kw)
                    except Exception as e:  # noqa: BLE001
                        chk.violation(f"load:{way}:load={load}", f"MelodyModel #{load} from the same cache specification ({way}) raises {type(e).__name__}: {e}",
                                      {"way": way, "load": load, "fallback_render_aird": allow, "specification_before": repr(spec_before)})
                        break
                    if spec_state(spec) != spec_before:
                        chk.violation(f"spec-mutated:{way}", f"loading a model changed the caller's cache specification ({way}): "
                                      f"{spec_before!r} -> {spec_state(spec)!r}",
                                      {"way": way, "load": load, "fallback_render_aird": allow, "before": repr(spec_before), "after": repr(spec_state(spec))})
                    if model.diagram_cache is None:
                        chk.violation(f"no-cache:{way}:load={load}", f"model #{load} loaded from the same cache specification ({way}: {spec_before!r}) has no diagram cache",
                                      {"way": way, "load": load, "fallback_render_aird": allow, "specification_now": repr(spec_state(spec))})
                        continue
                    exercise(model, way, allow, rh, target_dir, masks, load)
                    del model
                    repeat_stats[way] = repeat_stats.get(way, 0) + 1

        chk.coverage["render_configurations"] = dict(stats, total=len(rcases), ways=WAYS, ways_repeat_masks_only=REPEAT_ONLY,
                                                     models_built_per_way_from_one_specification_object=repeat_stats)
        lap("render-impl")

        # ---------------- E. cached files with arbitrary BYTES, and every render() keyword with an empty cache + fallback
        # E1: what is served is the conversion of exactly the cached bytes (independent inverse of each format, no
        #     capellambse code): line endings, BOM, non-ASCII, long lines, trailing blanks, CDATA-like and quote characters.
        long_line = b"<svg>" + b"x" * 70000 + b"</svg>"
        BYTE_FILES = [
            b"<svg>\r\n<g/>\r\n</svg>\r\n", b"<svg>a\rb</svg>", b"<svg>\r</svg>\r", b"\r\n", b"\n\r\n\r", b"<svg>\n</svg>\n\n\n", b"<svg/>   \t ",
            b"\xef\xbb\xbf<svg/>", b"\xef\xbb\xbf<?xml version=\"1.0\"?>\r\n<svg/>", "<svg>Ä€\U0001f600  \x85</svg>".encode("utf-8"),
            long_line, b"", b" ", b"<svg>\x00\x0b\x0c\x1c\x1d\x1e</svg>", b"<svg a=\"'&amp;<>\">]]&gt;</svg>", b"<svg>\xff\xfe</svg>", b"\xc3",
        ]
        alphabet = [b"\r", b"\n", b"\r\n", b" ", b"\t", b"<svg>", b"</svg>", "ä".encode(), " ".encode(), b"\xef\xbb\xbf", b"\x0c", b"\x85", b"x", b'"']
        for _ in range(12 if quick else 200):
            BYTE_FILES.append(b"".join(rng.choice(alphabet) for _ in range(rng.randint(1, 12))))
        bdir = tmp / "bytes-cache"
        bdir.mkdir()
        m_dir = capellambse.MelodyModel(aird, diagram_cache=str(bdir))
        e_stats = {"byte_contents": len(BYTE_FILES), "renders": 0, "with_CR": 0, "with_BOM": 0, "not_utf8": 0, "kwargs_compared": 0, "pretty_differs_from_compact": 0}
        URI = "data:image/svg+xml;base64,"
        CONF = re.compile(r'<ac:structured-macro ac:macro-id="[0-9a-f-]{36}" ac:name="html" ac:schema-version="1">'
                          r'<ac:plain-text-body><!\[CDATA\[(.*)\]\]></ac:plain-text-body></ac:structured-macro>', re.S)

        def unchunk(v):
            chunks = re.findall(rb"\x1b_Ga=T,q=2,f=100,m=[01];([A-Za-z0-9+/=]*)\x1b\\", v) if isinstance(v, bytes) else None
            return None if chunks is None else base64.standard_b64decode(b"".join(chunks))

        for bi, content in enumerate(BYTE_FILES):
            e_stats["with_CR"] += b"\r" in content
            e_stats["with_BOM"] += content.startswith(b"\xef\xbb\xbf")
            try:
                text = content.decode("utf-8")
            except UnicodeDecodeError:
                text = None
                e_stats["not_utf8"] += 1
            for hname, model_e in (("handler-object", m0), ("directory", m_dir)):
                for ext in (".svg", ".png"):
                    files = {uu + ext: content, other + ext: b"<svg>B</svg>"}
                    if hname == "directory":
                        for n in os.listdir(bdir):
                            (bdir / n).unlink()
                        for n, c in files.items():
                            (bdir / n).write_bytes(c)
                    else:
                        rec.files = files
                    dg = model_e.diagrams[ia]
                    for fmt in [f for f in rt_names if f != "svgdiagram"]:
                        in_chain = [getattr(c, "filename_extension", None) for c in own_chain(fmt)]
                        if ext not in in_chain:
                            continue
                        res = outcome(lambda: dg.render(fmt))
                        e_stats["renders"] += 1
                        if ext == ".svg" and text is None:
                            ok, exp = isinstance(res, Err), "an error (the cached file is not UTF-8)"
                        elif ext == ".svg":
                            if fmt == "svg":
                                ok = res == text and isinstance(res, str)
                            elif fmt == "datauri_svg":
                                ok = res == URI + base64.standard_b64encode(content).decode("ascii")
                            elif fmt == "html_img":
                                ok = str(res) == '<img src="' + URI + base64.standard_b64encode(content).decode("ascii") + '"/>'
                            elif fmt == "svg_confluence":
                                m_ = CONF.fullmatch(res) if isinstance(res, str) else None
                                ok = m_ is not None and m_.group(1) == text
                            elif fmt == "png":
                                ok = (res == PNG_STUB + content) if stub_used else True
                            else:
                                ok = (unchunk(res) == PNG_STUB + content) if stub_used else True
                            exp = "the conversion of exactly the cached bytes"
                        else:
                            ok = (res == content and isinstance(res, bytes)) if fmt == "png" else unchunk(res) == content
                            exp = "exactly the cached bytes" + ("" if fmt == "png" else " in terminal-graphics chunks")
                        key = f"bytes:{hname}:{ext}:{fmt}:{content[:40]!r}:{len(content)}"
                        chk.note_case(key, nontrivial=True)
                        if not ok:
                            chk.violation(key, f"render({fmt!r}) with {uu}{ext} = {content[:60]!r} ({len(content)} bytes) cached ({hname}) returned "
                                          f"{res!r:.120}; expected {exp}",
                                          {"cache": hname, "cached_file": uu + ext, "content_latin1": content.decode("latin-1")[:2000], "content_length": len(content),
                                           "fmt": fmt, "result": repr(res)[:400]})
        # E2: a configured cache without a usable file + fallback == no cache configured, for every keyword of render()/save()
        third = next(d.uuid for d in all_dgs if d.uuid not in (uu, other))
        fb_rec = RecHandler({third + ".svg": b"<svg>C</svg>", third + ".png": b"\x89PNG-C", "index.json": b"[]", "x" + uu + ".svg": b"<svg>x</svg>", other + ".svg.bak": b"no"})
        m_fb = capellambse.MelodyModel(aird, diagram_cache=fb_rec, fallback_render_aird=True)
        KWARGS = [{}, {"pretty_print": False}, {"pretty_print": True}, {"c19_unknown_parameter": 1}, {"pretty_print": True, "c19_unknown_parameter": 1}]

        def flat(v, kw):
            if type(v).__name__ == "SVGDiagram":
                return ("SVGDiagram", v.to_string(), outcome(lambda: v.to_string(pretty_print=True)))
            if type(v).__name__ == "Diagram":
                return ("Diagram", sorted(str(e.uuid) for e in v))
            return (type(v).__name__, v)

        for which in (ia, ib):
            for fmt in fmts:
                compact = None
                for kw in KWARGS:
                    for via in ("render", "save"):
                        if via == "save" and (fmt is None or fmt == "svgdiagram"):
                            continue

                        def call(model_, kw=kw, via=via, fmt=fmt):
                            dg_ = model_.diagrams[which]
                            if via == "render":
                                return flat(dg_.render(fmt, **kw), kw)
                            buf = io.BytesIO()
                            dg_.save(buf, fmt, **kw)
                            return ("saved", buf.getvalue())
                        want, got = outcome(lambda: call(nocache)), outcome(lambda: call(m_fb))
                        e_stats["kwargs_compared"] += 1
                        if via == "render" and fmt == "svg" and not isinstance(want, Err):
                            if kw == {}:
                                compact = want
                            elif kw == {"pretty_print": True} and want != compact:
                                e_stats["pretty_differs_from_compact"] += 1
                        key = f"kwargs:{via}:{fmt}:{sorted(kw)}:{kw.get('pretty_print')}:dg={'A' if which == ia else 'B'}"
                        chk.note_case(key, nontrivial=bool(kw))
                        if want != got:
                            chk.violation(key, f"{via}({fmt!r}, **{kw}) with a cache that has no file of the diagram and fallback_render_aird=True gives "
                                          f"{got!r:.120}; without a cache it gives {want!r:.120}",
                                          {"call": via, "fmt": fmt, "kwargs": repr(kw), "diagram_uuid": all_dgs[which].uuid, "cache_files": sorted(fb_rec.files),
                                           "fallback_render_aird": True, "with_cache": repr(got)[:400], "without_cache": repr(want)[:400]})
        if not e_stats["pretty_differs_from_compact"]:
            chk.broken.append("harness: pretty_print=True gives the same svg as the default for both subject diagrams; the keyword comparison is vacuous")
        chk.coverage["cached_bytes_and_render_keywords"] = e_stats
        lap("bytes+keywords")

        # ---------------- D. the cache handle as an OBJECT in any state, and every way of naming a LOCATION with every option
        # Files with distinguishable content are planted in the configured place AND in decoy places (next to the model, at
        # the cache root when a sub-directory is configured, in a sibling sub-directory): the oracle tells which file was
        # served.  `judge` is the same rule as in B: first cached ancestor of the requested format IN THE CONFIGURED PLACE,
        # converted forward; else an error, or the fresh rendering if the fallback is on.
        from capellambse.filehandler import memory as fhmemory
        d_stats = {"seconds_loading_models": 0.0, "seconds_rendering": 0.0, "renders": 0, "hit": 0, "miss-error": 0, "miss-fallback": 0, "not-a-directory": 0, "models": 0,
                   "handler_objects": {}, "location_specs": {}}
        # formats whose chain has a cacheable link, and one unknown-to-the-cache format as control
        D_FMTS = [f for f in rt_names if f not in ("termgraphics", "svgdiagram")] + (["termgraphics"] if not quick else [])
        TAGS = {uu: "A", other: "B"}

        def planted(place, names):
            """name -> content of the files of one place; the content says whose image it is and where it lies"""
            out = {}
            for n in names:
                who = TAGS[n.rsplit(".", 1)[0]]
                out[n] = (f"<svg>{who}@{place}</svg>".encode() if n.endswith(".svg") else b"\x89PNG-" + f"{who}@{place}".encode())
            return out

        ALLN = [uu + ".svg", uu + ".png", other + ".svg"]

        def watched_render(model, dg, fmt):
            """render with every open() of the model's cache handler object recorded (the class's method is wrapped for the
            duration of the call; other instances are not recorded)"""
            h = model.diagram_cache
            log: list[str] = []
            if h is None:
                return outcome(lambda: dg.render(fmt)), log
            cls = type(h)
            orig = cls.open

            def rec_open(self, filename, *a, **k):
                if self is h:
                    log.append(str(filename))
                return orig(self, filename, *a, **k)
            cls.open = rec_open
            try:
                return outcome(lambda: dg.render(fmt)), log
            finally:
                cls.open = orig

        def judge(model, cfg, visible, everything, allow, key, what, replay, weak=False):
            """cfg: label of the configured place; visible: name -> content there; everything: label -> {name: content} of
            all places (configured one included)"""
            for dg in (model.diagrams[ia], model.diagrams[ib]):
                for fmt in D_FMTS:
                    t0_ = time.time()
                    res, opened = watched_render(model, dg, fmt)
                    d_stats["seconds_rendering"] += time.time() - t0_
                    d_stats["renders"] += 1
                    S.sources = {}
                    for lab, fs in everything.items():
                        for n, c in fs.items():
                            S.sources[("b", c)] = ["B", lab + "|" + n]
                            S.sources[("s", c.decode("utf-8", "replace"))] = ["S", lab + "|" + n]
                    fr_svg = fresh[dg.uuid, "svg"]
                    if isinstance(fr_svg, str):
                        S.sources[("s", fr_svg)] = [ids["SVGFormat"], [ids["convert_svgdiagram"], b"fresh"]]
                    sres = res if isinstance(res, Err) else [ids["convert_svgdiagram"], b"fresh"] if type(res).__name__ == "SVGDiagram" else S.sym(res)
                    chain = own_chain(fmt)
                    exp_open, hit = [], None
                    for i, cv in enumerate(chain):
                        e = getattr(cv, "filename_extension", None)
                        if e and hasattr(cv, "from_cache"):
                            exp_open.append(dg.uuid + e)
                            if dg.uuid + e in visible:
                                hit = (i, cv, dg.uuid + e)
                                break
                    if weak:
                        # the configured place is not a directory: no file can be served from it, and nothing else may be
                        kind, ok, exp_desc = "not-a-directory", isinstance(res, Err), "an error (the configured place is not a directory)"
                        exp_open = opened
                    elif hit:
                        i, cv, fn = hit
                        exp_sym = [{".svg": "S", ".png": "B"}[cv.filename_extension], cfg + "|" + fn]
                        for c2 in reversed(chain[:i]):
                            exp_sym = [ids[c2.__name__], exp_sym]
                        kind, ok = "hit", sres == exp_sym
                        exp_desc = f"{fn} of {cfg} ({visible[fn]!r}) converted through {[c2.__name__ for c2 in reversed(chain[:i])]}"
                    elif allow:
                        fr = fresh[dg.uuid, fmt]
                        kind = "miss-fallback"
                        ok = (res == fr) if not (isinstance(fr, Err) or isinstance(res, Err)) else (isinstance(fr, Err) and isinstance(res, Err) and fr == res)
                        if type(fr).__name__ == "SVGDiagram":
                            ok = type(res).__name__ == "SVGDiagram"
                        exp_desc = "the same as rendering without a cache"
                    else:
                        kind, ok, exp_desc = "miss-error", res == Err("RuntimeError"), "RuntimeError (not in cache)"
                    d_stats[kind] += 1
                    k2 = f"{key}:allow={allow}:fmt={fmt}:dg={TAGS[dg.uuid]}"
                    chk.note_case(k2, nontrivial=True)
                    if not ok or opened != exp_open:
                        served = sres
                        while isinstance(served, list) and len(served) == 2 and isinstance(served[0], int):
                            served = served[1]
                        chk.violation(k2, f"{what}: render({fmt!r}) of diagram {TAGS[dg.uuid]} ({dg.uuid}), fallback={allow}, opened {opened} and "
                                      f"returned {res!r:.100} (source: {served!r:.80}); expected to open {exp_open} and return {exp_desc}",
                                      dict(replay, fallback_render_aird=allow, fmt=fmt, diagram_uuid=dg.uuid, opened=opened, result=repr(res)[:300],
                                           files_in_configured_place={n: c.decode("latin-1") for n, c in visible.items()},
                                           files_in_other_places={lab: sorted(fs) for lab, fs in everything.items() if lab != cfg}))
                    if not weak:
                        names = sorted(visible)
                        ftag = lambda lab: (b"f%d" % names.index(lab.split("|", 1)[1])) if lab.startswith(cfg + "|") else b"decoy:" + lab.encode()   # noqa: E731
                        fr_in = fresh[dg.uuid, None]
                        rcases.append(([fmt, [[n, b"f%d" % j] for j, n in enumerate(names)], allow, dg.uuid, [], [],
                                        b"fresh" if not isinstance(fr_in, Err) else fr_in], [opened, to_model(sres, ids, ftag)]))
                        rdesc.append({"way": key, "allow": allow, "fmt": fmt, "files": names, "diagram": dg.uuid})

        # ---- D1. handler objects: every class that satisfies the FileHandler interface, in every state
        class DictHandler(fhabc.FileHandler):
            """the interface and nothing else: a dict of files"""

            def __init__(self):
                super().__init__("dict:")
                self.files: dict[str, bytes] = {}

            def open(self, filename, mode="rb"):
                if "w" in mode:
                    raise AssertionError("diagram cache lookups must not write")
                if str(filename) in self.files:
                    return io.BytesIO(self.files[str(filename)])
                raise FileNotFoundError(str(filename))

            def put(self, files):
                self.files = dict(files)

        class LenIsFileCount(DictHandler):
            """a container-like handler: len() is the number of files, so it is falsy exactly while it is empty"""

            def __len__(self):
                return len(self.files)

            def __contains__(self, name):
                return str(name) in self.files

            def __iter__(self):
                return iter(sorted(self.files))

        class AlwaysFalsy(DictHandler):
            """unusual truthiness: __len__ is 0 and __bool__ is False whatever it holds"""

            def __len__(self):
                return 0

            def __bool__(self):
                return False

            def __contains__(self, name):
                return False

        class MemHandler:
            """capellambse's own in-memory handler behind the same put() as the classes above"""

            def __init__(self, subdir=None):
                self.h = fhmemory.MemoryFileHandler() if subdir is None else fhmemory.MemoryFileHandler(subdir=subdir)
                self.subdir = subdir

            def put(self, files, decoys=None):
                # the keys of MemoryFileHandler's store are absolute-less posix paths below its root
                self.h._data.clear()
                for n, c in files.items():
                    self.h.write_file(n, c)
                for n, c in (decoys or {}).items():
                    self.h._data[pathlib.PurePosixPath(n)] = bytearray(c)

        class RecMemory(fhmemory.MemoryFileHandler):
            """a subclass of the in-memory handler (user code deriving from a shipped handler)"""
            is_subclass = True

        HKINDS = {
            "DictHandler": lambda: DictHandler(),
            "falsy-wrapper:len-is-file-count": lambda: LenIsFileCount(),
            "falsy-wrapper:len0-bool-false": lambda: AlwaysFalsy(),
            "MemoryFileHandler": lambda: MemHandler(),
            "MemoryFileHandler(subdir)": lambda: MemHandler("sub/deeper"),
            "MemoryFileHandler-subclass": None,
        }

        def mk_handler(kind):
            if kind == "MemoryFileHandler-subclass":
                w = MemHandler()
                w.h = RecMemory()
                return w
            return HKINDS[kind]()

        SEQS = {   # states the handler goes through; the model is built where "LOAD" stands
            "empty-at-load,filled-later": [{}, "LOAD", {}, ALLN, [uu + ".png"], {}],
            "filled-at-load,changed-later": [ALLN, "LOAD", ALLN, [other + ".svg"], {}, [uu + ".svg"]],
            "one-file-at-load,emptied-later": [[other + ".svg"], "LOAD", [other + ".svg"], {}, ALLN],
        }
        for hk in HKINDS:
            for sname, seq in SEQS.items():
                for allow in (False, True):
                    w = mk_handler(hk)
                    hobj = getattr(w, "h", w)
                    model, step = None, 0
                    key = f"handler-object:{hk}:{sname}"
                    replay = {"diagram_cache": f"an instance of {hk}", "handler_states": repr(seq)}
                    for st in seq:
                        if st == "LOAD":
                            t0_ = time.time()
                            model = capellambse.MelodyModel(aird, diagram_cache=hobj, fallback_render_aird=allow)
                            d_stats["seconds_loading_models"] += time.time() - t0_
                            d_stats["models"] += 1
                            continue
                        step += 1
                        files = planted(f"state{step}", list(st))
                        if isinstance(w, MemHandler):
                            sd = w.subdir
                            decoys = {} if sd is None else {n: c for n, c in planted("root-of-the-handler", ALLN).items()}
                            if sd is not None:
                                decoys.update({"sub/" + n: c for n, c in planted("parent-of-the-subdir", ALLN).items()})
                            w.put(files, decoys)
                            everything = {f"state{step}": files, "root-of-the-handler": planted("root-of-the-handler", ALLN),
                                          "parent-of-the-subdir": planted("parent-of-the-subdir", ALLN)}
                        else:
                            w.put(files)
                            everything = {f"state{step}": files}
                        if model is None:
                            continue
                        if model.diagram_cache is not hobj:
                            # lookups must go to exactly the object that was handed in
                            r = outcome(lambda: model.diagrams[ia].render("svg"))
                            chk.violation(f"cache-handler-ignored:{hk}:{sname}:allow={allow}",
                                          f"a model given an instance of {hk} as diagram_cache ({'empty' if not seq[0] else 'holding files'} at load time) "
                                          f"has diagram_cache = {model.diagram_cache!r:.60}: the handler is ignored (render('svg') with "
                                          f"{sorted(files)} in it, fallback={allow}: {r!r:.80})",
                                          dict(replay, fallback_render_aird=allow, bool_of_handler=outcome(lambda: bool(hobj)),
                                               files_in_handler_now=sorted(files)))
                            break
                        judge(model, f"state{step}", files, everything, allow, f"{key}:step{step}", f"diagram_cache = instance of {hk}, {sname}, state {step}",
                              dict(replay, step=step))
                    d_stats["handler_objects"][hk] = d_stats["handler_objects"].get(hk, 0) + 1

        # ---- D2. locations: every way of naming one x root (the model's own path / a sub-directory of it / elsewhere) x subdir
        loc = tmp / "loc"
        M = loc / "model"
        shutil.copytree(lib.REPO / MODEL_DIR, M)
        O = loc / "other"
        DIRS = {"next-to-the-model": M, "model/sub": M / "sub", "model/sib": M / "sib", "model/sub/sub": M / "sub" / "sub",
                "other": O, "other/sub": O / "sub", "other/sib": O / "sib"}
        for lab, d_ in DIRS.items():
            d_.mkdir(parents=True, exist_ok=True)
        label_of = {str(v): k for k, v in DIRS.items()}

        def plant_all(hole=None):
            """all files everywhere; `hole`: that place loses the files of diagram A (the decoys keep theirs)"""
            ev = {}
            for lab, d_ in DIRS.items():
                names = [n for n in ALLN if not (lab == hole and n.startswith(uu))]
                for n in ALLN:
                    if (d_ / n).exists():
                        (d_ / n).unlink()
                ev[lab] = planted(lab, names)
                for n, c in ev[lab].items():
                    (d_ / n).write_bytes(c)
            return ev

        specs = []      # (label, model path argument, make spec(allow) -> (args, kw), configured dir or None if not a directory)
        for mform, mpath in (("dir-str", str(M)), ("dir-Path", M), ("file-str", str(M / AIRD))):
            roots = [("model-path", mpath)]
            if mform == "file-str":
                roots.append(("model-dir", str(M)))
            roots += [("subdir-of-model", str(M / "sub")), ("elsewhere", str(O))]
            for rname, root in roots:
                isfile = pathlib.Path(root).is_file()
                for sd in (None, "sub"):
                    place = None if isfile else (pathlib.Path(root) / sd if sd else pathlib.Path(root))
                    shapes = ["dict", "modelinfo", "local-handler", "get_filehandler"]
                    if sd is None:
                        shapes += ["str", "Path", "url"]
                    for shape in shapes:
                        if isfile and shape in ("local-handler", "get_filehandler", "Path", "url"):
                            continue
                        if mform != "dir-str" and shape in ("url", "get_filehandler", "local-handler") and rname != "model-path":
                            continue        # these do not look at the model path: once is enough
                        if shape == "get_filehandler" and not (mform == "dir-str" and rname in ("model-path", "elsewhere")):
                            continue        # the same constructor call as "local-handler"
                        specs.append((f"{mform}:{shape}:{rname}:subdir={sd}", mpath, shape, root, sd, place))
        for label, mpath, shape, root, sd, place in specs:
            sdkw = {} if sd is None else {"subdir": sd}
            same_as_model = shape == "str" and root == mpath
            for allow in ((False, True) if (rng.random() < 0.2 or (shape == "dict" and ":model-path:" in label)) else (False,)):
                if place is None and allow and not same_as_model:
                    continue
                kw = {"fallback_render_aird": allow}
                rootobj = root          # for the root "model-path" this IS the object the model is loaded from (str or Path)
                if shape == "dict":
                    spec = {"path": rootobj, **sdkw}
                elif shape == "modelinfo":
                    spec = None
                    kw = {"path": mpath, "diagram_cache": {"path": rootobj, **sdkw}, "fallback_render_aird": allow}
                elif shape == "local-handler":
                    spec = fhlocal.LocalFileHandler(root, **sdkw)
                elif shape == "get_filehandler":
                    spec = capellambse.filehandler.get_filehandler(root, **sdkw)
                elif shape == "str":
                    spec = rootobj if isinstance(rootobj, str) else str(rootobj)
                elif shape == "Path":
                    spec = pathlib.Path(root)
                else:
                    spec = pathlib.Path(root).as_uri()
                key = f"location:{label}"
                replay = {"model_path": repr(mpath), "diagram_cache": repr(spec) if spec is not None else repr(kw["diagram_cache"]),
                          "how": shape, "layout": {k: str(v) for k, v in DIRS.items()}}
                t0_ = time.time()
                try:
                    if shape == "modelinfo":
                        model = capellambse.MelodyModel(**kw)
                    else:
                        model = capellambse.MelodyModel(mpath, diagram_cache=spec, **kw)
                except Exception as e:  # noqa: BLE001
                    chk.violation(f"{key}:load", f"MelodyModel({mpath!r}, diagram_cache={replay['diagram_cache']}) raises {type(e).__name__}: {e}", replay)
                    continue
                d_stats["seconds_loading_models"] += time.time() - t0_
                d_stats["models"] += 1
                d_stats["location_specs"][shape] = d_stats["location_specs"].get(shape, 0) + 1
                if same_as_model and pathlib.Path(root).is_file():
                    place_eff = M               # "same as the model path" for a model given by its .aird file: the model's directory
                else:
                    place_eff = place
                what = f"model loaded from {mpath!r} ({label.split(':')[0]}), diagram_cache given as {shape} {replay['diagram_cache']}"
                if place_eff is None:
                    ev = plant_all()
                    judge(model, "nowhere", {}, ev, allow, key + ":full", what, replay, weak=True)
                    continue
                cfg = label_of[str(place_eff)]
                for hole in (None, cfg):
                    ev = plant_all(hole)
                    judge(model, cfg, ev[cfg], ev, allow, key + (":hole" if hole else ":full"),
                          what + (" (the configured place has no file of diagram A, the other places have)" if hole else ""), replay)
        d_stats["seconds_loading_models"] = round(d_stats["seconds_loading_models"], 1)
        d_stats["seconds_rendering"] = round(d_stats["seconds_rendering"], 1)
        chk.coverage["cache_objects_and_locations"] = d_stats
        lap("objects+locations")
        n_render = len(rcases)
        seen_r, uc, ud = set(), [], []
        for c_, d_ in zip(rcases, rdesc):        # the ways differ in how the handler is built, not in what the model is asked
            k_ = repr(c_)
            if k_ not in seen_r:
                seen_r.add(k_)
                uc.append(c_)
                ud.append(d_)
        rcases, rdesc = uc, ud
        chk.coverage["render_configurations"]["distinct_model_cases"] = len(rcases)
        chk.evaluations += n_render - len(rcases)
        chk.correspond(IMPORTS_R, "w_render", rcases, tag="C19_render", describe=lambda i: rdesc[i], shard=max(50, -(-len(rcases) // 13)))
        if rcases:
            k = next((i for i, d in enumerate(rdesc) if d["fmt"] == "html_img" and len(d["files"]) == 2), 0)
            chk.samples.append({"render case": rdesc[k], "opened/result": rcases[k][1]})

        lap("render-coq")
        # ---------------- C. thorough: every diagram of the model as subject, random cache contents
        if not quick:
            model = capellambse.MelodyModel(aird, diagram_cache=cdir)
            n_all = 0
            uuids = [d.uuid for d in model.diagrams]
            for d in model.diagrams:
                for _ in range(6):
                    for n in os.listdir(cdir):
                        (cdir / n).unlink()
                    present = {}
                    for u in rng.sample(uuids, 3) + [d.uuid]:
                        for e in (".svg", ".png"):
                            if rng.random() < 0.5:
                                present[u + e] = f"<svg>{u}{e}</svg>".encode()
                    for n, c in present.items():
                        (cdir / n).write_bytes(c)
                    for fmt in rt_names:
                        res = outcome(lambda: d.render(fmt))
                        n_all += 1
                        hit = None
                        for cv in own_chain(fmt):
                            e = getattr(cv, "filename_extension", None)
                            if e and hasattr(cv, "from_cache") and d.uuid + e in present:
                                hit = d.uuid + e
                                break
                        if hit is None:
                            ok = res == Err("RuntimeError")
                        else:
                            S.sources = {("b", c): [0, n.encode()] for n, c in present.items()}
                            S.sources.update({("s", c.decode()): [0, n.encode()] for n, c in present.items()})
                            s = S.sym(res) if not isinstance(res, Err) else res
                            while isinstance(s, list) and len(s) == 2 and s[0] != 0:
                                s = s[1]
                            ok = s == [0, hit.encode()]
                        chk.note_case(("all", d.uuid, fmt, sorted(present)))
                        if not ok:
                            chk.violation(f"all-diagrams:{d.uuid}:{fmt}:{sorted(present)}",
                                          f"render({fmt!r}) of {d.uuid} with cache {sorted(present)} returned {res!r:.120}, expected source {hit}",
                                          {"diagram_uuid": d.uuid, "fmt": fmt, "cache_files": sorted(present)})
            chk.coverage["all_diagrams_random_cache"] = n_all

    chk.coverage["rule"] = ("render(): exhaustive over 2^4 subsets of {A,B}x{.svg,.png} x unrelated-files bit x %d formats (7 entry points, "
                            "unknown, None) x fallback on/off x %d ways of giving the cache x 2 subject diagrams; __load_cache: exhaustive "
                            "synthetic chains up to length %d plus seeded random chains; non-trivial = at least one candidate file name. "
                            "Every way of specifying the cache (%s) is used for THREE models built from the same specification object "
                            "(same str / Path / dict / model-info mapping expanded with ** / handler instance): each model must have the "
                            "cache and pass the same oracle (file subsets %r; all 32 on the first model of the ways listed first), and the "
                            "specification object must compare equal to its state before the first load"
                            % (len(fmts), len(WAYS), maxlen, ", ".join(ALL_WAYS), REPEAT_MASKS)
                            + ". Handler OBJECTS of 6 classes (dict-backed, MemoryFileHandler, with subdir, a subclass, falsy while empty, "
                            "always falsy) through 3 state sequences (empty at load and filled later, filled and changed later, emptied later) "
                            "x fallback: the model must use exactly that object and see its current content. LOCATIONS: str / Path / URL / "
                            "dict / model-info / LocalFileHandler / get_filehandler x root (model path as given: dir str, Path, .aird file; "
                            "model dir; sub-directory of it; elsewhere) x subdir absent/given, files with place-tagged content in the "
                            "configured place and in 6 decoy places, second pass with the configured place lacking diagram A's files")
    chk.coverage["exhaustive"] = True
    chk.assumptions += [
        "converters' own behaviour (convert/from_cache) and the internal renderer are parameters of the theorems; the harness inverts the real converters textually to recover which file and which conversions produced a result",
        "pretty_print / render parameters are not modelled in Coq (a cache hit ignores them); the harness compares every keyword combination of render()/save() between an empty cache with fallback and no cache; _repr_mimebundle_ is out of scope of the statement",
        "cyclic `depends` graphs (would make _walk_converters loop) are excluded: the generated graph is checked acyclic by computation on every run",
    ]


def to_model(x, ids, ftag):
    """Symbolic result -> the value the Coq model computes.  The model's from_cache gives
    [hit converter id, content]; SVG's from_cache is utf-8 decoding (a text leaf) and PNG's the
    identity (a bytes leaf), so the kind of leaf determines the hit converter."""
    if isinstance(x, Err) or isinstance(x, (bytes, bytearray)):
        return x
    if isinstance(x, str):
        return ["unrecognised", x]          # never equal to a model output
    if isinstance(x, list) and len(x) == 2 and x[0] in ("S", "B"):
        return [ids.get("SVGFormat" if x[0] == "S" else "PNGFormat", 0), ftag(x[1])]
    if isinstance(x, list) and len(x) == 2 and isinstance(x[0], int):
        return [x[0], to_model(x[1], ids, ftag)]
    return ["unrecognised", repr(x)]


if __name__ == "__main__":
    lib.main("C19", run)
