"""Abstraction of the real loader state into the MG model's vocabulary (coq/Model/Graph.v),
plus generic discovery of API operations on model objects.  Shared by C03/C04/C06/C08/C09/C10."""
from __future__ import annotations

import collections
import contextlib
import pathlib
import typing as t

import lib

XMI_ID = "{http://www.omg.org/XMI}id"
XSI_TYPE = "{http://www.w3.org/2001/XMLSchema-instance}type"
XMI_TYPE = "{http://www.omg.org/XMI}type"
ALL_IDTYPES = ("id", "uid", XMI_ID)
# independent copy of which id attributes are indexed per file type
INDEXED = {
    ".afm": ("id",), ".aird": ("uid", XMI_ID), ".airdfragment": ("uid", XMI_ID),
    ".capella": ("id",), ".capellafragment": ("id",), ".melodymodeller": ("id",), ".melodyfragment": ("id",),
}
SEMANTIC = {".capella", ".capellafragment", ".melodymodeller", ".melodyfragment"}
VISUAL = {".aird", ".airdfragment"}


def kind_of(path) -> int:
    s = pathlib.PurePosixPath(str(path)).suffix
    return 0 if s in SEMANTIC else 1 if s in VISUAL else 2


class Interner:
    def __init__(self):
        self.tab: dict[str, int] = {}
        self.rev: list[str] = []

    def __call__(self, s: str | None) -> int | None:
        if s is None:
            return None
        i = self.tab.get(s)
        if i is None:
            i = self.tab[s] = len(self.rev)
            self.rev.append(s)
        return i


class Handles:
    """lxml element identity -> small integer (elements are kept alive so ids are never reused)."""

    def __init__(self):
        self.tab: dict[int, int] = {}
        self.keep: list = []

    def __call__(self, e) -> int:
        k = id(e)
        h = self.tab.get(k)
        if h is None:
            h = self.tab[k] = len(self.keep)
            self.keep.append(e)
        return h

    def elem(self, h: int):
        return self.keep[h]


class Abstraction:
    def __init__(self):
        self.S = Interner()
        self.H = Handles()

    def xtype_of(self, e) -> str | None:
        from capellambse import helpers
        try:
            return helpers.xtype_of(e)
        except Exception:  # noqa: BLE001  unknown plugin namespaces
            return None

    def node(self, e, suffix: str) -> tuple:
        par = e.getparent()
        href = e.get("href")
        ids = [e.get(k) for k in INDEXED.get(suffix, ()) if e.get(k) is not None]
        alls = [e.get(k) for k in ALL_IDTYPES if e.get(k) is not None]
        return (self.H(e), None if par is None else self.H(par), self.S(self.xtype_of(e)),
                tuple(self.S(x) for x in ids), tuple(self.S(x) for x in alls),
                None if href is None else self.S(href.split("#")[-1]))

    def nodes(self, tree) -> list[tuple]:
        suffix = tree.filename.suffix
        return [self.node(e, suffix) for e in tree.root.iter() if isinstance(e.tag, str)]

    def index(self, tree) -> tuple[dict, dict, dict]:
        """(idcache: id -> handle|None, xtypecache: handle -> xtype, hrefsources: id -> handle) read reflectively"""
        idc = {self.S(k): (None if v is None else self.H(v)) for k, v in tree._ModelFile__idcache.items()}
        xtc = {}
        for xt, d in tree._ModelFile__xtypecache.items():
            for v in d.values():
                xtc[self.H(v)] = self.S(xt)
        hrs = {self.S(k): self.H(v) for k, v in tree._ModelFile__hrefsources.items()}
        return idc, xtc, hrs


def node_val(n: tuple) -> list:
    return [n[0], n[1], n[2], list(n[3]), list(n[4]), n[5]]


def diff_nodes(before: list[tuple], after: list[tuple]) -> tuple[list[int], list[tuple]]:
    """(handles to detach, nodes to attach in document order of the new state); a node whose
    parent/ids/type/href changed is detached and re-attached."""
    b = {n[0]: n for n in before}
    a = {n[0]: n for n in after}
    detach = [h for h, n in b.items() if h not in a or a[h] != n]
    attach = [n for n in after if n[0] not in b or b[n[0]] != n]
    return detach, attach


def raw_scan_ids(loader) -> dict[str, list]:
    """independent oracle: id -> elements currently contained in a loaded fragment (indexed id kinds only)"""
    out: dict[str, list] = collections.defaultdict(list)
    for path, tree in loader.trees.items():
        kinds = INDEXED.get(path.suffix, ())
        if not kinds:
            continue
        for e in tree.root.iter():
            if not isinstance(e.tag, str):
                continue
            seen = set()
            for k in kinds:
                v = e.get(k)
                if v is not None and v not in seen:
                    seen.add(v)
                    out[v].append(e)
    return out


def raw_scan_types(loader) -> dict[str, list]:
    from capellambse import helpers
    out: dict[str, list] = collections.defaultdict(list)
    for path, tree in loader.trees.items():
        if path.suffix not in SEMANTIC:
            continue
        for e in tree.root.iter():
            if isinstance(e.tag, str) and e.get("href") is None:     # a placeholder stands for the fragment root it refers to
                with contextlib.suppress(Exception):
                    xt = helpers.xtype_of(e)
                    if xt:
                        out[xt].append(e)
    return out


# ------------------------------------------------------------------ API operation discovery
def list_relations(obj) -> list[tuple[str, t.Any]]:
    """(attribute name, accessor) for every list-valued writable relation of obj's class"""
    from capellambse.model import _descriptors as D
    out = []
    cls = type(obj)
    for name in dir(cls):
        if name.startswith("_"):
            continue
        try:
            acc = getattr(cls, name)
        except Exception:  # noqa: BLE001
            continue
        if isinstance(acc, D.WritableAccessor) and getattr(acc, "aslist", None) is not None:
            out.append((name, acc))
    return out


def acc_kind(acc) -> str:
    from capellambse.model import _descriptors as D
    for cls, k in ((D.AttributeMatcherAccessor, "attrmatch"), (D.DirectProxyAccessor, "direct"), (D.LinkAccessor, "link"),
                   (D.PhysicalLinkEndsAccessor, "plends"), (D.AttrProxyAccessor, "attr"), (D.RoleTagAccessor, "role"),
                   (D.TypecastAccessor, "typecast")):
        if isinstance(acc, cls):
            return k
    return type(acc).__name__


def link_element_types() -> set[str]:
    """xsi:types of the elements in which some LinkAccessor stores its references (allocations, involvements, realizations, ...)"""
    from capellambse.model import _descriptors as D, _xtype
    out: set[str] = set()
    for cls in _xtype.XTYPE_HANDLERS[None].values():
        for an in dir(cls):
            a = getattr(cls, an, None)
            if isinstance(a, D.LinkAccessor):
                out |= set(a.xtypes)
    return out
