"""Random API edit histories on a loaded MelodyModel (shared by C03, C04, C09, C10, C02-style checks)."""
from __future__ import annotations

import contextlib
import random
import typing as t

import graph


class Step(t.NamedTuple):
    kind: str
    desc: str
    ok: bool
    err: str | None


def _objects(model, rng: random.Random, n: int):
    """random semantic objects (model elements with a uuid)"""
    loader = model._loader
    els = []
    for path, tree in loader.trees.items():
        if path.suffix in graph.SEMANTIC:
            els.extend(e for e in tree.root.iter() if isinstance(e.tag, str) and e.get("id"))
    rng.shuffle(els)
    out = []
    from capellambse.model import _obj
    for e in els[: n * 3]:
        with contextlib.suppress(Exception):
            out.append(_obj.ModelElement.from_model(model, e))
        if len(out) >= n:
            break
    return out


class HistoryRunner:
    """Performs one random operation per call to step(); never raises (failed API calls are part of the history)."""

    KINDS = ["create", "create", "delete", "delete", "move", "move_sibling", "move_sibling", "link_add", "link_del", "attr_set", "create_bad",
             "setlist", "clear", "reqrel_create", "reqrel_del", "reqrel_del", "new_namespace", "delete_linked", "use_stale", "role_replace"]

    def __init__(self, model, rng: random.Random, savedir=None, kinds: list[str] | None = None):
        self.model, self.rng, self.savedir = model, rng, savedir
        self.kinds = kinds or self.KINDS
        self.pool: list = []
        self.n = 0

    def refresh_pool(self):
        self.pool = _objects(self.model, self.rng, 400)

    def _alive(self, o) -> bool:
        e = o._element
        while e.getparent() is not None:
            e = e.getparent()
        return any(t.root is e for t in self.model._loader.trees.values())

    def pick(self, pred=None):
        for _ in range(200):
            if not self.pool:
                self.refresh_pool()
                if not self.pool:
                    return None
            o = self.rng.choice(self.pool)
            if not self._alive(o):
                self.pool.remove(o)
                continue
            if pred is None or pred(o):
                return o
        return None

    def rels(self, o, kinds: tuple[str, ...]):
        return [(n, a) for n, a in graph.list_relations(o) if graph.acc_kind(a) in kinds]

    def step(self) -> Step:
        self.n += 1
        kind = self.rng.choice(self.kinds)
        try:
            desc = getattr(self, "op_" + kind)()
            if desc is None:
                return Step(kind, "no candidate", False, "skip")
            return Step(kind, desc, True, None)
        except BaseException as e:  # noqa: BLE001
            if isinstance(e, (KeyboardInterrupt, SystemExit, MemoryError)):
                raise
            return Step(kind, getattr(self, "_last", "?"), False, type(e).__name__)

    # ---- operations
    def op_create(self):
        o = self.pick(lambda o: bool(self.rels(o, ("direct",))))
        if o is None:
            return None
        name, acc = self.rng.choice(self.rels(o, ("direct",)))
        lst = getattr(o, name)
        hints = [None] + sorted(getattr(acc, "xtypes", []) or [])
        hint = self.rng.choice(hints)
        self._last = f"{type(o).__name__}({o.uuid}).{name}.create({hint})"
        kw = {}
        if self.rng.random() < 0.7:
            kw["name"] = f"n{self.n}"
        new = lst.create(hint, **kw) if hint else lst.create(**kw)
        self.pool.append(new)
        return self._last + f" -> {new.uuid}"

    def op_create_bad(self):
        o = self.pick(lambda o: bool(self.rels(o, ("direct",))))
        if o is None:
            return None
        name, acc = self.rng.choice(self.rels(o, ("direct",)))
        lst = getattr(o, name)
        how = self.rng.choice(["badattr", "badhint", "clash", "badvalue"])
        self._last = f"{type(o).__name__}({o.uuid}).{name}.create[{how}]"
        if how == "badattr":
            lst.create(name="x", no_such_attribute_xyz=1)
        elif how == "badhint":
            lst.create("NoSuchTypeXyz", name="x")
        elif how == "clash":
            lst.create(name="x", uuid=o.uuid)
        else:
            lst.create(name="x", description=object())
        return self._last + " (unexpectedly succeeded)"

    def op_role_replace(self):
        """Assign a new object to a single-valued containment role: an empty role is filled, a filled one gets an object of ANOTHER class
        (the old child leaves the model and must leave the lookups with it)."""
        import capellambse
        from capellambse.model import _descriptors as D

        def single_roles(o):
            out = []
            for n in dir(type(o)):
                a = getattr(type(o), n, None)
                if isinstance(a, D.RoleTagAccessor) and getattr(a, "aslist", 1) is None:
                    out.append(n)
            return out
        o = self.pick(lambda o: bool(single_roles(o)))
        if o is None:
            return None
        name = self.rng.choice(single_roles(o))
        cur = getattr(o, name)
        classes = ["LiteralNumericValue", "LiteralStringValue", "LiteralBooleanValue"]
        if cur is not None and self.rng.random() < 0.85:
            classes = [c for c in classes if c != type(cur).__name__]
        cls = self.rng.choice(classes)
        self._last = f"{type(o).__name__}({o.uuid}).{name} = new_object({cls}) (was {type(cur).__name__ if cur is not None else None})"
        setattr(o, name, D.NewObject(cls, value={"LiteralNumericValue": "3", "LiteralStringValue": "s", "LiteralBooleanValue": True}[cls]))
        return self._last

    def op_delete(self):
        for _ in range(25):
            o = self.pick(lambda o: bool(self.rels(o, ("direct", "role"))))
            if o is None:
                return None
            cands = [(n, a) for n, a in self.rels(o, ("direct", "role"))]
            self.rng.shuffle(cands)
            for name, acc in cands:
                try:
                    lst = getattr(o, name)
                except Exception:  # noqa: BLE001
                    continue
                if len(lst):
                    i = self.rng.randrange(-len(lst), len(lst))
                    self._last = f"del {type(o).__name__}({o.uuid}).{name}[{i}] ({lst[i].uuid})"
                    del lst[i]
                    return self._last
        return None

    def _link_types(self):
        if not hasattr(self, "_lt"):
            self._lt = graph.link_element_types()
        return self._lt

    def op_delete_linked(self):
        """delete an object that a link element refers to — preferably a link element owned by the ROOT element of a fragment
        (which has no XML parent), so that the purge happens next to a fragment boundary"""
        import re
        from capellambse.model import _obj
        loader = self.model._loader
        cands_root, cands_other = [], []
        for p, tree in loader.trees.items():
            if p.suffix not in graph.SEMANTIC or p.parts[0] != "\0":
                continue
            for e in tree.root.iter():
                if not isinstance(e.tag, str) or e.getparent() is None or e.get(graph.XSI_TYPE) not in self._link_types():
                    continue
                par = e.getparent()
                for k, v in e.attrib.items():
                    if k in ("id", "href") or "#" not in v or " " in v.strip().replace("  ", " ") and v.count("#") > 1:
                        continue
                    m = re.search(r"#([A-Za-z0-9_-]+)$", v.strip())
                    if m:
                        (cands_root if par.getparent() is None else cands_other).append(m.group(1))
        for pool in ([cands_root, cands_other] if self.rng.random() < 0.6 else [cands_other, cands_root]):
            self.rng.shuffle(pool)
            for tid in pool[:30]:
                try:
                    o = self.model.by_uuid(tid)
                except Exception:  # noqa: BLE001
                    continue
                if not self._alive(o):
                    continue
                cont = self.container_of(o)
                if cont is None:
                    continue
                self._last = f"delete (referenced by a link element) {type(o).__name__}({o.uuid}) from {type(cont[0]).__name__}.{cont[1]}"
                getattr(cont[0], cont[1]).remove(o)
                return self._last
        return None

    def op_use_stale(self):
        """delete an object and then go on using the handle: create below it.  Either that is refused, or whatever it creates must be
        consistent with the lookups (the harness looks up the ids collected in self.extra_ids)"""
        o = self.pick(lambda o: bool(self.rels(o, ("direct",))) and self.container_of(o) is not None and len(o._element) < 40)
        if o is None:
            return None
        cont = self.container_of(o)
        name, acc = self.rng.choice(self.rels(o, ("direct",)))
        self._last = f"delete {type(o).__name__}({o.uuid}) from {type(cont[0]).__name__}.{cont[1]}, then {name}.create() on the stale object"
        getattr(cont[0], cont[1]).remove(o)
        if not hasattr(self, "extra_ids"):
            self.extra_ids = []
        try:
            new = getattr(o, name).create(name=f"stale{self.n}")
            self.extra_ids.append(new.uuid)
            return self._last + f" -> accepted, {new.uuid}"
        except Exception as e:  # noqa: BLE001
            return self._last + f" -> refused ({type(e).__name__})"

    def op_placeholder_ancestor(self):
        """delete or move an element that CONTAINS a fragment placeholder (fragmented layouts only)"""
        loader = self.model._loader
        cands = []
        for p, tree in loader.trees.items():
            if p.suffix not in graph.SEMANTIC or p.parts[0] != "\0":
                continue
            for ph in tree.root.iter():
                if isinstance(ph.tag, str) and ph.get("href"):
                    e = ph.getparent()
                    hops = 0
                    while e is not None and e.getparent() is not None and hops < 3:
                        if e.get("id"):
                            cands.append(e.get("id"))
                        e = e.getparent()
                        hops += 1
        self.rng.shuffle(cands)
        for uid in cands[:20]:
            try:
                o = self.model.by_uuid(uid)
            except Exception:  # noqa: BLE001
                continue
            cont = self.container_of(o)
            if cont is None:
                continue
            if self.rng.random() < 0.5:
                dest = self.pick(lambda x: type(x) is type(cont[0]) and x._element is not cont[0]._element
                                 and o._element not in list(x._element.iterancestors()) and x._element is not o._element)
                if dest is not None:
                    self._last = f"move {type(o).__name__}({o.uuid}), which contains a fragment placeholder, to {type(dest).__name__}({dest.uuid}).{cont[1]}"
                    getattr(dest, cont[1]).append(o)
                    return self._last
            self._last = f"delete {type(o).__name__}({o.uuid}), which contains a fragment placeholder, from {type(cont[0]).__name__}.{cont[1]}"
            getattr(cont[0], cont[1]).remove(o)
            return self._last
        return None

    def op_reqrel_target_delete(self):
        """delete the object a requirement relation (incoming/outgoing/internal) points at: the relation element stays behind
        with one end missing"""
        rels = []
        for cls in ("CapellaIncomingRelation", "CapellaOutgoingRelation", "InternalRelation"):
            try:
                rels += list(self.model.search(cls))
            except Exception:  # noqa: BLE001
                pass
        self.rng.shuffle(rels)
        for rel in rels[:20]:
            for end in ("target", "source"):
                try:
                    o = getattr(rel, end)
                except Exception:  # noqa: BLE001
                    continue
                if o is None or not hasattr(o, "_element") or type(o).__name__ == "Requirement" or not self._alive(o):
                    continue
                cont = self.container_of(o)
                if cont is None:
                    continue
                self._last = f"delete the {end} {type(o).__name__}({o.uuid}) of {type(rel).__name__}({rel.uuid})"
                getattr(cont[0], cont[1]).remove(o)
                return self._last
        return None

    def _requirement(self):
        return self.pick(lambda o: type(o).__name__ == "Requirement")

    def op_reqrel_create(self):
        o = self._requirement()
        tgt = self.pick(lambda x: x._element is not (o._element if o is not None else None))
        if o is None or tgt is None:
            return None
        self._last = f"Requirement({o.uuid}).relations.create(target={tgt.uuid})"
        new = o.relations.create(target=tgt)
        return self._last + f" -> {new.uuid}"

    def op_reqrel_del(self):
        o = None
        for _ in range(12):     # prefer a requirement that has relations (incoming, outgoing and internal ones are stored in different places)
            o = self._requirement()
            if o is None:
                return None
            try:
                if len(o.relations):
                    break
            except Exception:  # noqa: BLE001
                continue
        lst = o.relations
        how = self.rng.choice(["delitem", "delattr", "assign"])
        self._last = f"Requirement({o.uuid}).relations: {how} ({len(lst)} relations)"
        if how == "delitem":
            if not len(lst):
                return None
            del lst[self.rng.randrange(len(lst))]
        elif how == "delattr":
            del o.relations
        else:
            o.relations = list(lst)[:1]
        return self._last

    def op_clear(self):
        if self.rng.random() < 0.6:
            return None
        o = self.pick(lambda o: bool(self.rels(o, ("direct",))))
        if o is None:
            return None
        for name, acc in self.rels(o, ("direct",)):
            lst = getattr(o, name)
            if 0 < len(lst) <= 3:
                self._last = f"del {type(o).__name__}({o.uuid}).{name}  (whole list, {len(lst)})"
                delattr(o, name)
                return self._last
        return None

    def op_move_role(self):
        """A move into a list served by a role-tag accessor, the donor taken from ANOTHER fragment/resource whenever one exists."""
        return self.op_move(kinds=("role",), other=True)

    def op_move(self, kinds=("direct", "role"), other=None):
        o = self.pick(lambda o: bool(self.rels(o, kinds)))
        if o is None:
            return None
        name, acc = self.rng.choice(self.rels(o, kinds))
        lst = getattr(o, name)
        # an existing object of a compatible class from elsewhere (for role lists: one stored under the same role tag);
        # half of the time prefer a donor living in another fragment/resource (cross-fragment move)
        cls = getattr(acc, "class_", None)
        role_tag = getattr(acc, "role_tag", None)
        xts = set(getattr(acc, "xtypes", []) or [])
        here = self.model._loader.find_fragment(o._element)
        want_other = self.rng.random() < 0.5 if other is None else other

        def ok(x):
            if cls is None or not isinstance(x, cls) or x._element is o._element or o._element in list(x._element.iterdescendants()):
                return False
            if role_tag is not None and x._element.tag != role_tag:
                return False
            if role_tag is None and xts and x.xtype not in xts:
                return False
            return True
        donor = None
        if want_other:
            donor = self.pick(lambda x: ok(x) and self.model._loader.find_fragment(x._element) != here)
        if donor is None:
            donor = self.pick(ok)
        if donor is None:
            return None
        # do not move an ancestor below its own descendant
        if donor._element in list(o._element.iterancestors()):
            return None
        i = self.rng.randint(0, len(lst))
        self._last = f"{type(o).__name__}({o.uuid}).{name}.insert({i}, {donor.uuid})"
        lst.insert(i, donor)
        return self._last

    def container_of(self, obj):
        """(parent object, relation name) of the containment/role list that holds obj"""
        try:
            par = obj.parent
        except Exception:  # noqa: BLE001
            return None
        if par is None or not hasattr(par, "_element"):
            return None
        for name, acc in self.rels(par, ("direct", "role")):
            if getattr(acc, "rootelem", None):
                continue
            try:
                if any(e is obj._element for e in getattr(par, name)._elements):
                    return par, name
            except Exception:  # noqa: BLE001
                continue
        return None

    def op_move_sibling(self):
        """move an object into the same relation of another container of the same class — preferably one that lives
        in a different fragment or resource"""
        for _ in range(30):
            d = self.pick()
            if d is None:
                return None
            cont = self.container_of(d)
            if cont is None:
                continue
            par, name = cont
            fd = self.model._loader.find_fragment(d._element)
            cands = [o for o in self.pool if type(o) is type(par) and o._element is not par._element and self._alive(o)
                     and o._element not in list(d._element.iterdescendants()) and o._element is not d._element]
            if not cands:
                continue
            other = [o for o in cands if self.model._loader.find_fragment(o._element) != fd]
            owner = self.rng.choice(other or cands)
            lst = getattr(owner, name)
            i = self.rng.randint(0, len(lst))
            self._last = f"{type(owner).__name__}({owner.uuid}).{name}.insert({i}, {d.uuid})  [from {fd} to {self.model._loader.find_fragment(owner._element)}]"
            lst.insert(i, d)
            return self._last
        return None

    def op_link_add(self):
        o = self.pick(lambda o: bool(self.rels(o, ("link", "attr"))))
        if o is None:
            return None
        name, acc = self.rng.choice(self.rels(o, ("link", "attr")))
        lst = getattr(o, name)
        cls = getattr(acc, "class_", None)
        tgt = self.pick(lambda x: cls is None or isinstance(x, cls))
        if tgt is None:
            return None
        self._last = f"{type(o).__name__}({o.uuid}).{name}.append({tgt.uuid})"
        lst.append(tgt)
        return self._last

    def op_link_del(self):
        o = self.pick(lambda o: bool(self.rels(o, ("link", "attr"))))
        if o is None:
            return None
        for name, acc in self.rels(o, ("link", "attr")):
            lst = getattr(o, name)
            if len(lst):
                i = self.rng.randrange(len(lst))
                self._last = f"del {type(o).__name__}({o.uuid}).{name}[{i}]"
                del lst[i]
                return self._last
        return None

    def op_setlist(self):
        o = self.pick(lambda o: bool(self.rels(o, ("link", "attr"))))
        if o is None:
            return None
        name, acc = self.rng.choice(self.rels(o, ("link", "attr")))
        cls = getattr(acc, "class_", None)
        k = self.rng.randint(0, 3)
        tg = []
        for _ in range(k):
            x = self.pick(lambda x: cls is None or isinstance(x, cls))
            if x is not None and all(x._element is not y._element for y in tg):
                tg.append(x)
        self._last = f"{type(o).__name__}({o.uuid}).{name} = {[x.uuid for x in tg]}"
        setattr(o, name, tg)
        return self._last

    def op_attr_set(self):
        o = self.pick()
        if o is None:
            return None
        val = self.rng.choice(["", "x", "a<b&c\"d'", "  lead", "trail  ", "tab\there", "zwj‍", "non-bmp \U0001F600", "line\nbreak"])
        attr = self.rng.choice(["name", "description", "summary"])
        self._last = f"{type(o).__name__}({o.uuid}).{attr} = {val!r}"
        setattr(o, attr, val)
        return self._last

    def op_new_namespace(self):
        """create objects of a plugin whose namespace the fragment may not declare yet (requirements), after
        activating its viewpoints: the next save() has to rebuild the fragment root with a new namespace map"""
        for vp in ("org.polarsys.kitalpha.vp.requirements", "org.polarsys.capella.vp.requirements"):
            try:
                self.model._loader.activate_viewpoint(vp, "0.12.2")
            except Exception:  # noqa: BLE001  already active (possibly with another version)
                pass
        layer = None
        for name in ("la", "sa", "oa", "pa"):
            try:
                layer = getattr(self.model, name)
                if layer is not None:
                    break
            except Exception:  # noqa: BLE001
                continue
        if layer is None:
            return None
        self._last = f"{type(layer).__name__}.requirement_modules.create + requirement"
        mod = layer.requirement_modules.create(long_name=f"m{self.n}")
        req = mod.requirements.create(long_name=f"r{self.n}")
        self.pool += [mod, req]
        return self._last + f" -> {mod.uuid}, {req.uuid}"

    def op_save(self):
        if self.savedir is None:
            return None
        self._last = "save()"
        self.model.save()
        return self._last

    def op_viewpoint(self):
        self._last = "activate_viewpoint"
        name = self.rng.choice(["org.polarsys.capella.vp.requirements", "org.polarsys.kitalpha.vp.requirements",
                                "org.polarsys.capella.filtering", "made.up.viewpoint"])
        self.model._loader.activate_viewpoint(name, self.rng.choice(["0.12.1", "1.0.0"]))
        return self._last + " " + name
