"""Split subtrees of a semantic model file into their own .capellafragment files the way
Capella's fragmentation does (placeholder element keeping tag + xsi:type + href; fragment root
with namespaced tag and xmi:version; semanticResources entry in the .aird; links that cross the new
boundary rewritten to the typed cross-fragment form).  Pure lxml + posixpath: shares no code with
capellambse.  The file shape is derived from the loader's expectations and EMF conventions — no
Capella is available offline to confirm it (stated as an assumption in the evidence)."""
from __future__ import annotations

import pathlib
import posixpath
import re
import urllib.parse

from lxml import etree

XSI = "http://www.w3.org/2001/XMLSchema-instance"
XMI = "http://www.omg.org/XMI"
XSI_TYPE = f"{{{XSI}}}type"
LINK_TOKEN = re.compile(r"#([A-Za-z0-9_-]+)")


def _type_of(e) -> str | None:
    return e.get(XSI_TYPE)


def fragment_model(modeldir: pathlib.Path, capella_name: str, aird_name: str, picks: list[tuple[str, str]], aird_style: str = "direct") -> list[str]:
    """picks: [(uuid of subtree root, fragment path relative to modeldir)], outer subtrees first for nested picks.
    aird_style "direct": the .aird lists every fragment in a <semanticResources> entry; "chain" (what Capella writes): every
    .capellafragment gets an .airdfragment next to it which names it RELATIVE TO ITS OWN FOLDER, and the .aird (or the
    .airdfragment of the enclosing fragment) refers to that .airdfragment through <referencedAnalysis href=...>.
    Returns the list of fragment paths actually created."""
    parser = etree.XMLParser(remove_blank_text=True, huge_tree=True)
    files: dict[str, etree._ElementTree] = {capella_name: etree.parse(str(modeldir / capella_name), parser)}
    owner: dict[str, str] = {}      # element id -> file that contains it
    for e in files[capella_name].getroot().iter():
        if isinstance(e.tag, str) and e.get("id"):
            owner[e.get("id")] = capella_name
    created = []
    parent_file: dict[str, str] = {}      # fragment -> the file its placeholder lives in
    main_root = files[capella_name].getroot()
    nsmap = {k: v for k, v in main_root.nsmap.items() if k}
    for uid, fpath in picks:
        src_file = owner.get(uid)
        if src_file is None:
            continue
        root = files[src_file].getroot()
        el = next((e for e in root.iter() if isinstance(e.tag, str) and e.get("id") == uid), None)
        if el is None or el.getparent() is None:
            continue
        xt = _type_of(el)
        if not xt or ":" not in xt:
            continue
        prefix, local = xt.split(":", 1)
        if prefix not in nsmap:
            continue
        # ---- fragment root: namespaced tag, xmi:version, same attributes except xsi:type, same children
        new_root = etree.Element(f"{{{nsmap[prefix]}}}{local}", nsmap=dict(nsmap))
        new_root.set(f"{{{XMI}}}version", "2.0")
        for k, v in el.attrib.items():
            if k != XSI_TYPE:
                new_root.set(k, v)
        parent_file[fpath] = src_file
        # ---- placeholder in the owning file
        rel = posixpath.relpath(fpath, posixpath.dirname(src_file) or ".")
        ph = etree.Element(el.tag)
        ph.set(XSI_TYPE, xt)
        ph.set("href", urllib.parse.quote(rel) + "#" + uid)
        parent = el.getparent()
        parent.replace(el, ph)
        for child in list(el):
            new_root.append(child)
        tree = etree.ElementTree(new_root)
        # keep Capella's version comment in front of the root if the main file has one
        prev = main_root.getprevious()
        if prev is not None and isinstance(prev, etree._Comment):
            new_root.addprevious(etree.Comment(prev.text))
        files[fpath] = tree
        for e in new_root.iter():
            if isinstance(e.tag, str) and e.get("id"):
                owner[e.get("id")] = fpath
        created.append(fpath)
    # ---- rewrite links that now cross a fragment boundary
    types: dict[str, str | None] = {}
    for fname, tree in files.items():
        for e in tree.getroot().iter():
            if isinstance(e.tag, str) and e.get("id"):
                t = _type_of(e)
                if t is None and e.getparent() is None:
                    q = etree.QName(e)
                    pfx = next((k for k, v in nsmap.items() if v == q.namespace), None)
                    t = f"{pfx}:{q.localname}" if pfx else None
                types[e.get("id")] = t
    for fname, tree in files.items():
        for e in tree.getroot().iter():
            if not isinstance(e.tag, str):
                continue
            for k, v in list(e.attrib.items()):
                if k in ("id", "href") or "#" not in v or k == XSI_TYPE:
                    continue
                toks = v.split(" ")
                if not all(t.startswith("#") for t in toks):
                    continue   # already has typed/cross links: leave untouched
                out = []
                for t in toks:
                    tid = t[1:]
                    tf = owner.get(tid)
                    if tf is None or tf == fname:
                        out.append(t)
                    else:
                        rel = urllib.parse.quote(posixpath.relpath(tf, posixpath.dirname(fname) or "."))
                        ty = types.get(tid)
                        out.append(f"{ty} {rel}#{tid}" if ty else f"{rel}#{tid}")
                e.set(k, " ".join(out))
    # ---- write files
    for fname, tree in files.items():
        p = modeldir / fname
        p.parent.mkdir(parents=True, exist_ok=True)
        p.write_bytes(etree.tostring(tree, xml_declaration=True, encoding="UTF-8"))
    # ---- register the fragments in the .aird
    aird = etree.parse(str(modeldir / aird_name), parser)
    aroot = aird.getroot()
    da = next((e for e in aroot.iter() if isinstance(e.tag, str) and etree.QName(e).localname == "DAnalysis"), None)
    if da is not None and aird_style == "direct":
        existing = [e for e in da if isinstance(e.tag, str) and e.tag == "semanticResources"]
        anchor = existing[-1] if existing else None
        for f in created:
            sr = etree.Element("semanticResources")
            sr.text = urllib.parse.quote(f)
            if anchor is not None:
                anchor.addnext(sr)
                anchor = sr
            else:
                da.insert(0, sr)
    elif da is not None:
        vp_ns = etree.QName(da).namespace
        analyses: dict[str, etree._Element] = {}      # semantic file -> the DAnalysis element of the visual file that goes with it
        analyses[capella_name] = da
        visual_of = {capella_name: aird_name}
        trees_out = {}
        for n_, f in enumerate(created):
            af = posixpath.splitext(f)[0] + ".airdfragment"
            root_a = etree.Element(f"{{{vp_ns}}}DAnalysis", nsmap={"xmi": XMI, "viewpoint": vp_ns})
            root_a.set(f"{{{XMI}}}version", "2.0")
            root_a.set("uid", f"_fragA{n_:04d}harness")
            root_a.set("version", da.get("version") or "14.3.1.202003261200")
            sr = etree.SubElement(root_a, "semanticResources")
            sr.text = urllib.parse.quote(posixpath.basename(f))          # relative to the .airdfragment's own folder
            analyses[f] = root_a
            visual_of[f] = af
            trees_out[af] = root_a
            # the enclosing file's analysis refers to this one, relative to ITS folder
            encl = parent_file.get(f, capella_name)
            host = analyses.get(encl, da)
            ra = etree.Element("referencedAnalysis")
            ra.set("href", urllib.parse.quote(posixpath.relpath(af, posixpath.dirname(visual_of.get(encl, aird_name)) or ".")) + "#" + root_a.get("uid"))
            host.insert(0, ra)
        for af, root_a in trees_out.items():
            p = modeldir / af
            p.parent.mkdir(parents=True, exist_ok=True)
            p.write_bytes(etree.tostring(root_a, xml_declaration=True, encoding="UTF-8"))
    (modeldir / aird_name).write_bytes(etree.tostring(aird, xml_declaration=True, encoding="UTF-8"))
    return created
